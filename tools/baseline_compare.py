#!/usr/bin/env python3
"""Compare a junit xml with BASELINE.json stable_pass: prints stable tests that did not pass."""
import json, sys, xml.etree.ElementTree as ET
b = json.load(open('/root/.vp/BASELINE.json'))
stable = set(b['stable_pass'])
t = ET.parse(sys.argv[1]).getroot()
passed = set()
for tc in t.iter('testcase'):
    name = f"{tc.get('classname')}::{tc.get('name')}"
    if not any(c.tag in ('failure', 'error', 'skipped') for c in tc):
        passed.add(name)
missing = sorted(stable - passed)
print(len(stable), 'stable;', len(passed), 'passed now;', len(missing), 'stable tests not passing')
for m in missing[:20]: print('  ', m)
