#!/usr/bin/env python3
"""add_known.py <property> <regex on tag> "<description>" : after a check run, turn its replay files whose tag matches into open known findings."""
import json, os, re, sys, glob
prop, rx, desc = sys.argv[1:4]
k = json.load(open('/verif/KNOWN_FINDINGS.json'))
have = {(f['harness'], f['tag']) for f in k['findings'] if f.get('status', 'open') == 'open'}
n = 0
for p in sorted(glob.glob(f'/verif/replays/{prop}-*.json')):
    r = json.load(open(p))
    if re.search(rx, r['tag']) and (r['harness'], r['tag']) not in have:
        k['findings'].append({"property": prop, "harness": r['harness'], "tag": r['tag'], "status": "open", "witness": r['args'], "P": r.get('P'), "description": desc})
        have.add((r['harness'], r['tag'])); n += 1
        print("added", r['harness'], r['tag'])
json.dump(k, open('/verif/KNOWN_FINDINGS.json', 'w'), indent=1)
print(n, "added")
