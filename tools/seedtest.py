#!/usr/bin/env python3
"""Apply a seeded defect to /repo, confirm its demonstration fails with it and passes without it, run the checks of
the given properties against it, and restore /repo.

  tools/seedtest.py <dir with patch.diff + demo.py> <property id> [<property id> ...] [--tier quick]

Prints one JSON line with the results.  /repo is always restored (git checkout -- .) even on error.
"""
import json
import os
import subprocess
import sys
import time

ROOT = os.path.dirname(os.path.dirname(os.path.abspath(__file__)))


def sh(cmd, **kw):
    return subprocess.run(cmd, shell=True, capture_output=True, text=True, **kw)


def main():
    args = [a for a in sys.argv[1:] if not a.startswith("--")]
    tier = "quick"
    if "--tier" in sys.argv:
        tier = sys.argv[sys.argv.index("--tier") + 1]
        args = [a for a in args if a != tier]
    d, props = args[0], args[1:]
    patch, demo = os.path.join(d, "patch.diff"), os.path.join(d, "demo.py")
    out = {"dir": d, "props": props, "tier": tier}
    if sh("git -C /repo status --porcelain --untracked-files=no").stdout.strip():
        print("refusing: /repo has uncommitted changes")
        return 2
    env = dict(os.environ, PYTHONPATH="/repo/src")
    if os.path.exists(demo):
        r = sh(f"timeout 600 /venv/bin/python {demo}", env=env, cwd="/tmp")
        out["demo_clean_rc"] = r.returncode
    r = sh(f"git -C /repo apply --check {patch}")
    if r.returncode:
        out["apply"] = "FAILED: " + r.stderr[-300:]
        print(json.dumps(out))
        return 1
    try:
        sh(f"git -C /repo apply {patch}")
        if os.path.exists(demo):
            r = sh(f"timeout 600 /venv/bin/python {demo}", env=env, cwd="/tmp")
            out["demo_patched_rc"] = r.returncode
        out["checks"] = {}
        for p in props:
            t0 = time.time()
            r = sh(f"./check {p} --tier {tier}", cwd=ROOT)
            viol = [ln for ln in r.stdout.splitlines() if ln.startswith("VIOLATION") or ln.startswith("   harness=")]
            out["checks"][p] = {"rc": r.returncode, "wall_s": round(time.time() - t0, 1), "lines": [v[:260] for v in viol[:6]],
                                "other": [ln[:200] for ln in r.stdout.splitlines() if ln.startswith(("HARNESS-ERROR", "INCONCLUSIVE"))][:4]}
    finally:
        sh("git -C /repo checkout -- .")
        # replay files produced against the patched tree are not kept
        for f in os.listdir(os.path.join(ROOT, "replays")):
            if f.endswith(".json"):
                os.remove(os.path.join(ROOT, "replays", f))
        # evidence was rewritten by a run on a patched tree: restore the committed copy
        for p in props:
            sh(f"git -C {ROOT} checkout -- evidence/{p}.json")
    print(json.dumps(out, indent=1))
    return 0


if __name__ == "__main__":
    sys.exit(main())
