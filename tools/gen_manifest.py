#!/usr/bin/env python3
"""Regenerate MANIFEST.json and levels.json from props_meta.json (one entry per claimed property)."""
import json, os
ROOT = os.path.dirname(os.path.dirname(os.path.abspath(__file__)))
meta = json.load(open(os.path.join(ROOT, "props_meta.json")))
props = [json.loads(l) for l in open(os.path.join(ROOT, "properties.jsonl"))]
ids = [p["id"] for p in props]
checks, na, levels = [], [], {}
for pid in ids:
    m = meta.get(pid)
    if not m or m.get("na"):
        na.append({"property_id": pid, "reason": (m or {}).get("na", "no check built yet (see DESIGN.md section 4 for the plan)")})
        continue
    levels[pid] = m["level"]
    checks.append({
        "property_id": pid,
        "quick_cmd": f"./check {pid} --tier quick",
        "thorough_cmd": f"./check {pid} --tier thorough",
        "evidence_file": f"/verif/evidence/{pid}.json",
        "replay_cmd_template": "./check --replay {path}",
        "engine": m.get("engine", "symx"),
        "level_claimed": {"category": m["level"], "text": m["text"], "design_ref": m.get("design_ref", f"DESIGN.md section 4, {pid}")},
        "level_note": m["note"],
        "technique": m.get("technique", "solver-based symbolic execution of the real code (CrossHair kernel + z3), path-exhaustive within stated bounds"),
    })
man = {
    "version": 1,
    "setup_cmd": "./setup.sh",
    "hooks": {
        "guard": "BLUESKY_VERIF",
        "enable": "no source hooks are needed: every seam is a module attribute, constructor argument or injected fake; checks export BLUESKY_VERIF=1 for uniformity",
        "baseline_off_cmd": "cd /repo && /venv/bin/python -m pytest -ra -q -p no:cacheprovider --timeout=900 --continue-on-collection-errors",
        "source_commits": [],
        "add_only": True,
    },
    "engines": [
        {"name": "symx", "path": "/verif/vlib/symx.py", "serves_properties": [c["property_id"] for c in checks if c["engine"] == "symx"],
         "kind_free_text": "path-exhaustive symbolic execution of the real Python code on CrossHair 0.0.110's kernel with z3 5.1; counterexamples replayed natively"},
        {"name": "z3-direct", "path": "/verif/vlib/z3direct.py", "serves_properties": [c["property_id"] for c in checks if c["engine"] == "z3-direct"],
         "kind_free_text": "direct z3 queries over layout models validated against CPython each run (C37)"},
    ],
    "checks": checks,
    "not_applicable": na,
    "notes": "All checks: exit 0 held/known findings/inconclusive (printed), 1 VIOLATION after native replay, 3 harness error. Known findings: /verif/KNOWN_FINDINGS.json.",
}
json.dump(man, open(os.path.join(ROOT, "MANIFEST.json"), "w"), indent=1)
json.dump(levels, open(os.path.join(ROOT, "levels.json"), "w"), indent=1)
print(len(checks), "checks;", len(na), "not applicable")
