#!/usr/bin/env python3
"""Regenerates the generated part of DESIGN.md (between the BEGIN/END GENERATED markers) from the harness registry,
KNOWN_FINDINGS.json, seeded/*/meta.json and /repo's fix commits.  Run with /verif/.venv/bin/python."""
import glob, json, os, subprocess, sys

sys.path.insert(0, "/verif")
os.environ.setdefault("BLUESKY_VERIF", "1")
from vlib import harness  # noqa: E402

props = [json.loads(l) for l in open("/verif/properties.jsonl")]
meta = json.load(open("/verif/props_meta.json"))
out = []
w = out.append
w("<!-- BEGIN GENERATED (tools/gen_design_tables.py) -->")
w("")
w("### 9.1 Harnesses as built: mode, symbolic dimensions, bounds (quick / thorough), what lies outside")
w("")
for p in props:
    pid = p["id"]
    if "na" in meta.get(pid, {}):
        continue
    try:
        hs = list(harness.load_for(pid).values())
    except Exception as e:  # noqa
        w(f"* **{pid}** (harness import failed: {e})")
        continue
    w(f"**{pid} — {p['title']}** (level: {meta[pid]['level']})")
    w("")
    for h in hs:
        q, t = h.tiers.get("quick", {}), h.tiers.get("thorough", {})
        show = lambda d: ", ".join(f"{k}={v}" for k, v in d.items() if k not in ("budget_s", "per_path_s"))  # noqa
        w(f"* `{h.name}` [{h.mode}{', exhaustive verdict required' if h.require_exhaustive else ''}]")
        w(f"  * symbolic: {h.symbolic}")
        w(f"  * bounds: quick ({show(q)}); thorough ({show(t)})")
        if h.out_of_bound:
            w(f"  * outside the claim: {h.out_of_bound}")
        if h.stubs:
            w(f"  * stubs / assumptions: {h.stubs if isinstance(h.stubs, str) else '; '.join(h.stubs)}")
        if h.goals:
            w(f"  * vacuity goals (each must be reached on some path): {', '.join(h.goals)}")
    w("")
w("### 9.2 Genuine defects repaired in /repo (`fix:` commits) and the check that found each")
w("")
k = json.load(open("/verif/KNOWN_FINDINGS.json"))
log = subprocess.run(["git", "-C", "/repo", "log", "--format=%h %s"], capture_output=True, text=True).stdout.splitlines()
fixes = [l for l in log if l.split(" ", 1)[1].startswith("fix:")]
for l in reversed(fixes):
    h, subj = l.split(" ", 1)
    who = sorted({(f["property"], f["harness"]) for f in k["findings"] if f.get("status") == "fixed" and f.get("commit", "").startswith(h[:7])})
    w(f"* `{h}` {subj} — found by {', '.join(f'{p}/{hn}' for p, hn in who) or '(see 9.4)'}")
w("")
w("### 9.3 Known findings (open): genuine defects recorded rather than repaired")
w("")
seen = set()
for f in k["findings"]:
    if f.get("status", "open") != "open" or f["description"] in seen:
        continue
    seen.add(f["description"])
    n = sum(1 for g in k["findings"] if g.get("status", "open") == "open" and g["description"] == f["description"])
    w(f"* **{f['property']}** ({n} context tag{'s' if n > 1 else ''}, e.g. `{f['harness']}` / `{f['tag']}`): {f['description']}")
w("")
w("### 9.4 Seeded changes (`/verif/seeded/<id>/`) and which check catches each")
w("")
w("| seed | property | needs, to manifest | caught by | verdict |")
w("|---|---|---|---|---|")
for d in sorted(glob.glob("/verif/seeded/*/meta.json")):
    m = json.load(open(d))
    sid = d.split("/")[-2]
    rcs = {p: c.get("rc") for p, c in m.get("checks", {}).items()}
    verdict = "VIOLATION" if any(v == 1 for v in rcs.values()) else ("harness error (rc 3)" if any(v == 3 for v in rcs.values()) else "missed")
    needs = (m.get("needs_to_manifest") or "").replace("|", "/").replace("\n", " ")
    w(f"| {sid} | {m.get('breaks_property')} | {needs[:160]} | {(m.get('caught_by') or '').replace('|', '/')[:200]} | {verdict} |")
w("")
w("<!-- END GENERATED -->")
text = open("/verif/DESIGN.md").read()
b, e = "<!-- BEGIN GENERATED (tools/gen_design_tables.py) -->", "<!-- END GENERATED -->"
if b in text:
    text = text[: text.index(b)] + "\n".join(out) + text[text.index(e) + len(e):]
else:
    text = text.rstrip("\n") + "\n\n" + "\n".join(out) + "\n"
open("/verif/DESIGN.md", "w").write(text)
print("generated", len(out), "lines")
