#!/usr/bin/env python3
"""keepseed.py <src dir> <seed id> <property> <result json> "<needs>" "<caught by>" : store a confirmed seeded defect under /verif/seeded/<id>/"""
import json, os, shutil, sys
src, sid, prop, res, needs, caught = sys.argv[1:7]
dst = os.path.join('/verif/seeded', sid)
os.makedirs(dst, exist_ok=True)
for f in ('patch.diff', 'demo.py', 'notes.md'):
    if os.path.exists(os.path.join(src, f)):
        shutil.copy(os.path.join(src, f), os.path.join(dst, f))
r = json.load(open(res))
meta = {"breaks_property": prop, "needs_to_manifest": needs,
        "confirmed": {"demo_exit_unpatched": r.get("demo_clean_rc"), "demo_exit_patched": r.get("demo_patched_rc"),
                      "ran": f"tools/seedtest.py {src} {' '.join(r['props'])} --tier {r['tier']} (git apply to /repo, demo.py with PYTHONPATH=/repo/src, ./check, git checkout -- .)"},
        "checks": r.get("checks"), "caught_by": caught, "source": "independent sub-agent given only the property text and a scratch worktree"}
json.dump(meta, open(os.path.join(dst, 'meta.json'), 'w'), indent=1)
print("kept", dst)
