"""One RE-lab *case*: a plan, a schedule of external requests, a post-pause decision and an optional device fault.

``run_case`` executes the case against the real RunEngine and returns an ``Obs`` (observation record) that the
oracles in vlib/oracles.py examine.  Everything in the case description is concrete by the time it gets here (the
harness has forked the symbolic schedule variables), so this module runs natively.
"""
import contextlib
import types

from vlib.relab import Lab, LabStuck


class Obs(types.SimpleNamespace):
    pass


def run_case(plan_factory, requests=(), decision="resume", *, fail_call=None, fail_status=None, fail_attr=False, re_kwargs=None, max_decisions=3,
             followup=True, subs=None, md_kw=None, setup=None, on_docs=None, updates=(), settle_paused=False, prelude=None, mid_paused=None, post=None):
    """
    plan_factory(lab) -> (plan generator, devices dict)
    requests: iterable of dicts {step:int, kind:str, ...}; fired once when the pump step counter equals `step`
              (kind in pause/defer/abort/stop/halt/suspend); {phase:'paused', kind:...} fires right after a call
              returned with the engine paused, before the decision is applied.
    decision: what to do each time a call ends paused: resume/abort/stop/halt (at most max_decisions times)
    updates: iterable of dicts {step:int, signal:str, value:v}: signal updates pushed from the hook
    """
    lab = Lab(**(re_kwargs or {}))
    obs = Obs(calls=[], reqs=[], stuck=False, lab=lab)
    try:
        RE = lab.RE
        if setup:
            setup(lab)
        plan, devices = plan_factory(lab)
        obs.devices = devices
        obs.plan_end = None

        obs.responses = []  # (message, response sent into the plan at its yield, number of messages executed so far)
        obs.thrown = []  # (message at whose yield an exception was thrown into the plan, exception, index in msgs)

        def recorder(gen):
            try:
                r = yield from spy(gen)
            except GeneratorExit:
                obs.plan_end = ("closed", None, lab.steps, len(lab.msgs), len(lab.docs))
                raise
            except BaseException as e:  # noqa
                obs.plan_end = ("raised", e, lab.steps, len(lab.msgs), len(lab.docs))
                raise
            obs.plan_end = ("return", r, lab.steps, len(lab.msgs), len(lab.docs))
            return r

        def spy(gen):
            # forwards everything; notes every exception the engine throws into the plan and at which message's yield
            try:
                m = gen.send(None)
                while True:
                    try:
                        resp = yield m
                    except GeneratorExit:
                        gen.close()
                        raise
                    except BaseException as e:  # noqa
                        obs.thrown.append((m, e, len(lab.msgs)))
                        m = gen.throw(e)
                        continue
                    obs.responses.append((m, resp, len(lab.msgs)))
                    m = gen.send(resp)
            except StopIteration as s:
                return s.value

        from bluesky.utils import ensure_generator

        plan = recorder(ensure_generator(plan))
        lab.fail_call, lab.fail_status = fail_call, fail_status
        lab.fail_as_attribute_error = fail_attr
        pending = [dict(r) for r in requests if r.get("phase", "run") == "run"]
        paused_reqs = [dict(r) for r in requests if r.get("phase") == "paused"]
        upd = [dict(u) for u in updates]
        msg_meta, doc_meta = [], []
        ncall = [0]
        msg_times = []
        msg_deferred = []
        msg_kw = []  # keyword arguments of every message as they were when the engine received it (a Msg can be mutated later)
        RE.msg_hook = lambda m: (lab.msgs.append(m), msg_kw.append(dict(m.kwargs)), msg_meta.append((lab.steps, ncall[0])), msg_times.append(lab.clock.t), msg_deferred.append(bool(RE._deferred_pause_requested)))
        lab.docs_meta = doc_meta
        tok = RE.subscribe(lambda n, d: doc_meta.append((lab.steps, ncall[0], lab.clock.t)))

        def hook(step):
            for u in upd:
                if u["step"] <= step and not u.get("done"):  # '<=': a nested pump can skip hook calls; a due update lands at the next one
                    u["done"] = True
                    devices[u["signal"]].put(u["value"])
                    obs.reqs.append(dict(kind="update", step=step, state=str(RE.state), runs_open=len(RE._run_bundlers), signal=u["signal"], value=u["value"], t=lab.clock.t))
            for r in pending:
                if r["step"] == step and not r.get("done"):
                    r["done"] = True
                    kw = {k: v for k, v in r.items() if k not in ("step", "kind", "done", "phase")}
                    rec = dict(kind=r["kind"], step=step, state=str(RE.state), nmsgs=len(lab.msgs), ndocs=len(lab.docs), resumable=RE.resumable,
                               runs_open=len(RE._run_bundlers), t=lab.clock.t)
                    obs.reqs.append(rec)  # recorded before the (possibly blocking) request so that nested requests keep landing order
                    rec["out"] = ("pending", None)
                    rec["out"] = lab.request(r["kind"], **kw)

        lab.hook = hook

        def record(api, out):
            kind, val = out
            if kind == "stuck":
                obs.stuck = True
            obs.calls.append(dict(api=api, outcome=kind, value=val if kind == "ret" else None, exc=val if kind != "ret" else None,
                                  exc_type=type(val).__name__ if kind != "ret" else None, state=str(RE.state), resumable=RE.resumable,
                                  deferred=RE.deferred_pause_requested, steps=lab.steps, nmsgs=len(lab.msgs), ndocs=len(lab.docs), t=lab.clock.t))
            ncall[0] += 1

        if prelude is not None:
            # an earlier, unrelated call on the same engine (its documents and messages are discarded)
            lab.hook = None
            lab.call(RE, prelude(lab))
            del msg_kw[:], lab.docs[:], lab.msgs[:], lab.trans[:], lab.trans_meta[:], lab.ledger[:], lab.ledger_msg[:], msg_meta[:], doc_meta[:], msg_times[:], msg_deferred[:]
            lab.ncalls = 0
            lab.hook = hook
        lab.steps = 0
        kw = dict(md_kw or {})
        record("call", lab.call(RE, plan, subs, **kw) if subs is not None else lab.call(RE, plan, **kw))
        n = 0
        while str(RE.state) == "paused" and n < max_decisions and not obs.stuck:
            n += 1
            for r in paused_reqs:
                if not r.get("done"):
                    r["done"] = True
                    st = str(RE.state)
                    out = lab.request(r["kind"])
                    if out[0] == "task":
                        lab.settle()
                        t = out[1]
                        out = ("exc", t.exception()) if t.done() and t.exception() else ("ret", None)
                    obs.reqs.append(dict(kind=r["kind"], step=lab.steps, state=st, out=out, nmsgs=len(lab.msgs), ndocs=len(lab.docs), resumable=RE.resumable,
                                         runs_open=len(RE._run_bundlers), t=lab.clock.t, phase="paused"))
            if str(RE.state) != "paused":
                break
            if settle_paused:
                lab.settle()  # time passes while the engine sits paused: pending device statuses complete (or fail)
            if mid_paused is not None:
                obs.mid_paused = lab.call(mid_paused, lab)
            record(decision, lab.call(getattr(RE, decision)))
        obs.state = str(RE.state)
        obs.msgs, obs.msg_meta, obs.msg_times, obs.msg_deferred = list(lab.msgs), msg_meta, msg_times, msg_deferred
        obs.msg_kw = msg_kw
        obs.docs, obs.doc_meta = list(lab.docs), doc_meta
        obs.trans = list(lab.trans)
        obs.trans_meta = list(lab.trans_meta)
        obs.rewinds = list(lab.rewinds)
        obs.ledger = list(lab.ledger)
        obs.ledger_msg = list(lab.ledger_msg)
        obs.followup_deferred = None
        obs.steps = lab.steps
        obs.tasks_unresolved = [r for r in obs.reqs if isinstance(r.get("out"), tuple) and r["out"][0] == "task"]
        for r in obs.tasks_unresolved:
            t = r["out"][1]
            if t.done():
                r["out"] = ("exc", t.exception()) if (not t.cancelled() and t.exception()) else ("ret", None)
        obs.temp_subs_left = len(RE._temp_callback_ids)
        obs.followup = None
        RE.unsubscribe(tok)
        if followup and obs.state == "idle" and not obs.stuck:
            lab.hook = None
            from bluesky.utils import Msg

            nd = len(lab.docs)
            out = lab.call(RE, [Msg("open_run"), Msg("close_run")])
            obs.followup_deferred = RE.deferred_pause_requested
            obs.followup = dict(outcome=out[0], exc=out[1] if out[0] != "ret" else None, state=str(RE.state),
                                docs=[n_ for n_, _ in lab.docs[nd:]], all_docs=lab.docs[nd:])
        if post is not None:
            lab.hook = None
            post(lab, obs)  # harness-specific continuation on the same engine (e.g. a later, different call)
        obs.out = lab.out.getvalue()
        return obs
    finally:
        lab.close()


def dry_run_steps(plan_factory, **kw):
    """Number of pump steps of the uninterrupted plan (used to bound the request step)."""
    obs = run_case(plan_factory, (), followup=False, **kw)
    return obs.calls[0]["steps"], obs
