"""Harness registry.

A Harness bundles: the property it serves, a factory ``make(P) -> fn`` where
``P`` is the dict of concrete tier parameters (always including ``shard`` and
``nshards``), the per-tier parameters, the coverage goals that must be reached
(vacuity guard), the real bluesky callables it executes (hashed into the
evidence) and free-text bounds / stubs / assumptions for the evidence file.
"""
import dataclasses
import hashlib
import importlib
import inspect
import pkgutil
from typing import Callable, Dict, List


@dataclasses.dataclass
class Harness:
    name: str
    prop: str
    make: Callable  # make(P) -> harness function with annotated symbolic args
    tiers: Dict[str, dict]  # tier -> params (shards, budget_s, per_path_s + harness specific)
    goals: List[str] = dataclasses.field(default_factory=list)
    functions: Callable = None  # () -> list of real callables executed symbolically
    mode: str = "traced"  # traced | schedule
    symbolic: str = ""  # what is symbolic and its bounds
    out_of_bound: str = ""  # what lies outside the claim
    stubs: List[str] = dataclasses.field(default_factory=list)
    float_model: str = ""  # real | ieee | default | ""
    opaque_text: bool = False  # symbolic numbers format as '<sym>' (see symx.opaque_number_text)
    require_exhaustive: bool = False  # if True a non-exhausted shard is printed as INCONCLUSIVE

    def params(self, tier):
        p = dict(shards=1, budget_s=60.0, per_path_s=20.0)
        p.update(self.tiers.get(tier) or self.tiers["quick"])
        import json, os

        if os.environ.get("VERIF_PARAMS"):  # developer override, e.g. VERIF_PARAMS='{"L":4}'
            p.update(json.loads(os.environ["VERIF_PARAMS"]))
        # Wall-time cap of the thorough tier: the shards of one harness share 16 cores, so the per-shard CPU budget is
        # cut to what keeps the harness within the cap.  A bound that is not exhausted within it is reported as
        # INCONCLUSIVE (exit 0, evidence says exhaustive=false) -- never as held.
        cap = float(os.environ.get("VERIF_WALL_CAP_S", "900" if tier == "thorough" else "0") or 0)
        if cap > 0:
            p["budget_s"] = min(p["budget_s"], max(30.0, cap * min(16, p["shards"]) / p["shards"]))
        return p


_REG: Dict[str, Harness] = {}


def register(h: Harness):
    if h.name in _REG:
        raise ValueError("duplicate harness " + h.name)
    _REG[h.name] = h
    return h


def load_all():
    import harnesses

    for m in pkgutil.iter_modules(harnesses.__path__):
        importlib.import_module("harnesses." + m.name)
    return _REG


def load_for(prop):
    """Import only the modules serving a property (harnesses/<prop lower>*.py) to keep start-up cheap."""
    import harnesses

    for m in pkgutil.iter_modules(harnesses.__path__):
        if m.name.startswith(prop.lower()):
            importlib.import_module("harnesses." + m.name)
    return {k: v for k, v in _REG.items() if v.prop == prop}


def get(name):
    if name not in _REG:
        prop = name.split("_")[0].upper()
        load_for(prop)
    return _REG[name]


def source_hashes(h: Harness):
    out = []
    for f in (h.functions() if h.functions else []):
        try:
            src = inspect.getsource(f)
            q = getattr(f, "__qualname__", getattr(f, "__name__", repr(f)))
            mod = getattr(f, "__module__", "")
            out.append({"function": f"{mod}.{q}", "sha256": hashlib.sha256(src.encode()).hexdigest()[:16]})
        except Exception as e:  # noqa
            out.append({"function": repr(f), "sha256": "unavailable: " + repr(e)})
    return out
