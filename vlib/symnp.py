"""symnp -- the pure-Python subset of numpy that bluesky's plan / pattern code uses, so that symbolic ints and
reals can flow through it (numpy itself is C and would realise them).

Installed as the ``np`` name of the modules under analysis with ``installed(...)``.  Element-wise semantics over
exact reals; ``selftest()`` compares every function with real numpy on concrete samples and is run by each harness
factory (translator validation).  ``cos/sin/tan`` come from a tape supplied by the harness (an unconstrained
over-approximation) -- or from ``math`` when no tape is installed (native replay).
"""
import contextlib
import math


class ndarray(list):
    """1-D array: a list whose slices are arrays and that supports the arithmetic used by the plans."""

    def __getitem__(self, i):
        r = list.__getitem__(self, i)
        return ndarray(r) if isinstance(i, slice) else r

    def _bin(self, o, f):
        if isinstance(o, (list, tuple)):
            if len(o) != len(self):
                raise ValueError("operands could not be broadcast together")
            return ndarray(f(a, b) for a, b in zip(self, o))
        return ndarray(f(a, o) for a in self)

    def __add__(self, o):
        return self._bin(o, lambda a, b: a + b)

    __radd__ = __add__

    def __sub__(self, o):
        return self._bin(o, lambda a, b: a - b)

    def __rsub__(self, o):
        return self._bin(o, lambda a, b: b - a)

    def __mul__(self, o):
        return self._bin(o, lambda a, b: a * b)

    __rmul__ = __mul__

    def __truediv__(self, o):
        return self._bin(o, lambda a, b: a / b)

    def __neg__(self):
        return ndarray(-a for a in self)

    @property
    def shape(self):
        return (len(self),)

    @property
    def size(self):
        return len(self)

    ndim = 1

    def tolist(self):
        return list(self)

    def __hash__(self):
        raise TypeError("unhashable")


generic = ()  # isinstance(x, np.generic) is always False for Python numbers
pi = math.pi


def array(v, dtype=None):
    return ndarray(v)


asarray = array


def isscalar(x):
    return isinstance(x, (int, float, complex, str, bytes, bool))


def prod(v):
    r = 1
    for a in v:
        r = r * a
    return r


def sum(v):  # noqa: A001
    r = 0
    for a in v:
        r = r + a
    return r


def concatenate(seq):
    out = ndarray()
    for s in seq:
        out.extend(s)
    return out


def repeat(v, n):
    out = ndarray()
    for a in v:
        for _ in range(int(n)):
            out.append(a)
    return out


def tile(v, n):
    out = ndarray()
    for _ in range(int(n)):
        out.extend(v)
    return out


def linspace(start, stop, num=50, endpoint=True):
    num = int(num)
    if num < 0:
        raise ValueError("Number of samples, %s, must be non-negative." % num)
    if num == 0:
        return ndarray()
    if num == 1:
        return ndarray([start * 1.0 if not isinstance(start, float) else start])
    div = (num - 1) if endpoint else num
    step = (stop - start) / div
    out = ndarray(start + i * step for i in range(num))
    if endpoint:
        out[-1] = stop * 1.0 if not isinstance(stop, float) else stop
    return out


def abs(x):  # noqa: A001
    if isinstance(x, list):
        return ndarray(abs(a) for a in x)
    return x if x >= 0 else -x


def clip(x, lo, hi):
    # numpy: minimum(maximum(x, lo), hi)
    if isinstance(x, list):
        return ndarray(clip(a, lo, hi) for a in x)
    y = x if x >= lo else lo
    return y if y <= hi else hi


def min(v):  # noqa: A001
    it = iter(v)
    m = next(it)
    for a in it:
        if a < m:
            m = a
    return m


def max(v):  # noqa: A001
    it = iter(v)
    m = next(it)
    for a in it:
        if a > m:
            m = a
    return m


def isclose(a, b, rtol=1e-05, atol=1e-08):
    """numpy.isclose for scalars (and element-wise for sequences): |a - b| <= atol + rtol * |b|."""
    if isinstance(a, (list, tuple)) or isinstance(b, (list, tuple)):
        aa = a if isinstance(a, (list, tuple)) else [a] * len(b)
        bb = b if isinstance(b, (list, tuple)) else [b] * len(a)
        return ndarray(isclose(x, y, rtol, atol) for x, y in zip(aa, bb))
    if a is None or b is None or isinstance(a, (str, dict)) or isinstance(b, (str, dict)):
        raise TypeError("ufunc 'isfinite' not supported for the input types")
    d = a - b
    d = -d if d < 0 else d
    m = -b if b < 0 else b
    return d <= atol + rtol * m


def allclose(a, b, rtol=1e-05, atol=1e-08):
    return all(isclose(a, b, rtol, atol))


def all(v):  # noqa: A001
    if isinstance(v, (list, tuple)):
        for x in v:
            if not x:
                return False
        return True
    return True if v else False


def any(v):  # noqa: A001
    if isinstance(v, (list, tuple)):
        for x in v:
            if x:
                return True
        return False
    return True if v else False


_TAPE = {"t": None}


def _tape_next(fallback, x):
    t = _TAPE["t"]
    if t is None:
        return fallback(x)
    return t(fallback.__name__, x)


def sqrt(x):
    return _tape_next(math.sqrt, x)


def cos(x):
    return _tape_next(math.cos, x)


def sin(x):
    return _tape_next(math.sin, x)


def tan(x):
    return _tape_next(math.tan, x)


import sys as _sys  # noqa: E402

_THIS = _sys.modules[__name__]


@contextlib.contextmanager
def installed(*modules, tape=None):
    """Bind this module as ``np`` in the given modules for the duration of the block."""
    saved = [(m, m.__dict__.get("np")) for m in modules]
    old_tape = _TAPE["t"]
    _TAPE["t"] = tape
    for m in modules:
        m.np = _THIS
    try:
        yield _THIS
    finally:
        _TAPE["t"] = old_tape
        for m, v in saved:
            if v is None:
                m.__dict__.pop("np", None)
            else:
                m.np = v


def selftest():
    """Compare with real numpy on concrete samples; raises AssertionError on mismatch."""
    import numpy as rnp

    def eq(a, b):
        a, b = list(a), [float(x) for x in b]
        assert len(a) == len(b), (a, b)
        for x, y in zip(a, b):
            assert math.isclose(float(x), y, rel_tol=1e-12, abs_tol=1e-12), (a, b)

    for s, e, n in [(0, 1, 5), (-2.5, 3, 4), (1, 1, 3), (3, -3, 7), (2, 5, 1), (0, 10, 2)]:
        eq(linspace(s, e, n), rnp.linspace(s, e, n))
    for v, n in [([1, 2, 3], 2), ([5], 3), ([1, 2], 1), ([], 2)]:
        eq(repeat(array(v), n), rnp.repeat(rnp.array(v), n))
        eq(tile(array(v), n), rnp.tile(rnp.array(v), n))
    eq(concatenate([array([1, 2]), array([1, 2])[::-1]]), rnp.concatenate([rnp.array([1, 2]), rnp.array([1, 2])[::-1]]))
    assert prod([2, 3, 4]) == rnp.prod([2, 3, 4]) and prod([]) == rnp.prod([])
    for x, lo, hi in [(5, 0, 3), (-1, 0, 3), (2, 0, 3), (2, 3, 1)]:
        assert clip(x, lo, hi) == rnp.clip(x, lo, hi), (x, lo, hi)
    assert min([3, 1, 2]) == rnp.min([3, 1, 2]) and abs(-2.5) == rnp.abs(-2.5)
    eq(array([1, 2, 3])[:2], rnp.array([1, 2, 3])[:2])
    for a, b in [(1.0, 1.0), (1.0, 1.00001), (1.0, 1.0001), (0.0, 1e-9), (0.0, 1e-7), (-5000.0, -5000.01), (1e5, 1e5 + 2)]:
        assert bool(isclose(a, b)) == bool(rnp.isclose(a, b)), (a, b)
        assert bool(all(isclose(a, b))) == bool(rnp.all(rnp.isclose(a, b))), (a, b)
    try:
        isclose(1.0, None)
        raise AssertionError("isclose(x, None) must raise TypeError like numpy")
    except TypeError:
        pass
    return True
