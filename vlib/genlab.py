"""genlab -- a small generator-program grammar and a scripted driver (DESIGN 3.2).

A *program* is a list of symbolic opcodes interpreted (lazily: an opcode is forked by the solver only when the
interpreter reaches it, so unreachable suffixes are merged) as a Python generator with nested ``yield from``,
``try/finally`` with a yield in ``finally``, ``try/except`` with a yield in the handler, ``raise`` and ``return``.
A *script* is a list of symbolic driver actions applied at successive yields: send a (symbolic) value, throw an
ordinary exception, throw a RunEngine control exception, or close the generator.

``drive`` returns the complete observable trace: messages yielded, how the generator ended (return value,
exception type and args, closed, RuntimeError on close) and the plan-side log (responses received, exceptions seen
by handlers, ``finally`` executions).
"""
from vlib.symx import fork_int

YIELD, RAISE, RETURN, SUB, TRYFIN, TRYEXC, END, TRANS, CATCHRET = range(9)
NOPS = 7  # TRANS is only used where a harness lists it explicitly
SEND, THROW, STOP, CLOSE, SENDNONE, THROWBASE = range(6)
NACT = 4  # SENDNONE only when drive(..., nact=5)


class BaseBoom(BaseException):
    """What the driver throws to model KeyboardInterrupt / CancelledError: a BaseException that is not an Exception."""


class Boom(Exception):
    pass


SIMPLE_OPS = (YIELD, RAISE, RETURN, END)
ALL_OPS = (YIELD, RAISE, RETURN, SUB, TRYFIN, TRYEXC, END)
RICH_OPS = ALL_OPS + (TRANS, CATCHRET)  # plus: translate a thrown exception into another one; catch it and return a value without yielding


def interp(code, log, tag="p", maxdepth=2, msg_cmd="null", ops=ALL_OPS):
    """Generator for program ``code`` (list of symbolic ints).  ``log`` collects plan-side observations."""
    from bluesky.utils import Msg

    state = {"pc": 0}
    L = len(code)

    def block(level):
        while state["pc"] < L:
            pc = state["pc"]
            state["pc"] = pc + 1
            op = ops[fork_int(code[pc], 0, len(ops) - 1)]
            if op == YIELD:
                r = yield Msg(msg_cmd, tag, pc)
                log.append(("resp", tag, pc, r))
            elif op == RAISE:
                log.append(("raise", tag, pc))
                raise Boom(tag, pc)
            elif op == RETURN:
                return ("ret", tag, pc)
            elif op == END:
                return ("end", tag, pc)
            elif level >= maxdepth:
                r = yield Msg(msg_cmd, tag, pc, "deep")
                log.append(("resp", tag, pc, r))
            elif op == SUB:
                r = yield from block(level + 1)
                log.append(("sub", tag, pc, r))
            elif op == TRYFIN:
                try:
                    r = yield from block(level + 1)
                    log.append(("try-done", tag, pc, r))
                finally:
                    log.append(("finally", tag, pc))
                    r2 = yield Msg(msg_cmd, tag, pc, "in-finally")
                    log.append(("resp-fin", tag, pc, r2))
            elif op == TRANS:
                try:
                    r = yield from block(level + 1)
                    log.append(("try-done", tag, pc, r))
                except Boom as e:
                    log.append(("translate", tag, pc, e.args))
                    raise Boom("translated", tag, pc) from None
            elif op == CATCHRET:
                try:
                    r = yield from block(level + 1)
                    log.append(("try-done", tag, pc, r))
                except Boom as e:
                    log.append(("caught-and-returned", tag, pc, e.args))
                    return ("caught-ret", tag, pc)
            elif op == TRYEXC:
                try:
                    r = yield from block(level + 1)
                    log.append(("try-done", tag, pc, r))
                except Boom as e:
                    log.append(("caught", tag, pc, e.args))
                    r2 = yield Msg(msg_cmd, tag, pc, "in-handler")
                    log.append(("resp-exc", tag, pc, r2))
        return ("fell-off", tag)

    return block(0)


def msg_key(m):
    try:
        return (m.command, m.obj, tuple(m.args), tuple(sorted(m.kwargs.items())), m.run)
    except Exception:  # noqa
        return ("not-a-msg", repr(m))


def exc_key(e):
    return (type(e).__name__, tuple(e.args))


def drive(gen, script, vals, max_steps=None, nact=NACT, alphabet=None):
    """Run ``gen`` under the scripted driver.  Returns the trace (list)."""
    from bluesky.utils import RequestStop

    trace = []
    try:
        m = gen.send(None)
    except StopIteration as e:
        trace.append(("return", e.value))
        return trace
    except Exception as e:  # noqa
        trace.append(("raised", exc_key(e)))
        return trace
    S = len(script) if max_steps is None else max_steps
    for j in range(S):
        trace.append(("msg", msg_key(m)))
        a = fork_int(script[j], 0, nact - 1) if alphabet is None else alphabet[fork_int(script[j], 0, len(alphabet) - 1)]
        try:
            if a == SEND:
                m = gen.send(vals[j])
            elif a == THROW:
                trace.append(("throw", j))
                m = gen.throw(Boom("driver", j))
            elif a == STOP:
                trace.append(("throw-stop", j))
                m = gen.throw(RequestStop())
            elif a == SENDNONE:
                m = gen.send(None)
            elif a == THROWBASE:
                trace.append(("throw-base", j))
                m = gen.throw(BaseBoom("driver", j))
            else:
                trace.append(("close", j))
                gen.close()
                trace.append(("closed-ok",))
                return trace
        except StopIteration as e:
            trace.append(("return", e.value))
            return trace
        except Exception as e:  # noqa
            trace.append(("raised", exc_key(e)))
            return trace
        except BaseBoom as e:
            trace.append(("raised-base", exc_key(e)))
            return trace
    trace.append(("msg", msg_key(m)))
    trace.append(("script-end-close",))
    try:
        gen.close()
        trace.append(("closed-ok",))
    except Exception as e:  # noqa
        trace.append(("raised", exc_key(e)))
    return trace


def first_diff(a, b):
    """Index and pair of the first differing entries of two traces ('' if equal).  Works on symbolic entries."""
    n = min(len(a), len(b))
    for i in range(n):
        if a[i] != b[i]:
            return i
    if len(a) != len(b):
        return n
    return -1
