"""Oracles over an ``Obs`` produced by vlib.sweep.run_case.  Each returns a list of finding tags ([] = held)."""
from collections import OrderedDict, defaultdict

TABLE = {  # copied from RunEngineStateMachine.Meta.transitions at design time (a mutation that widens the table is still caught)
    "idle": ["running", "panicked"],
    "running": ["idle", "pausing", "halting", "stopping", "aborting", "suspending", "panicked"],
    "pausing": ["paused", "idle", "halting", "aborting", "panicked"],
    "suspending": ["running", "halting", "aborting", "panicked"],
    "paused": ["idle", "running", "halting", "stopping", "aborting", "panicked"],
    "halting": ["idle", "panicked"],
    "stopping": ["idle", "panicked"],
    "aborting": ["idle", "panicked"],
    "panicked": [],
}


def group_runs(docs):
    """-> (runs: OrderedDict start_uid -> list of (idx, name, doc), orphans)."""
    runs, orphans = OrderedDict(), []
    desc_run, res_run = {}, {}
    for i, (name, doc) in enumerate(docs):
        if name == "start":
            runs[doc["uid"]] = [(i, name, doc)]
        elif name == "stop":
            runs.setdefault(doc.get("run_start"), []).append((i, name, doc))
        elif name == "descriptor":
            desc_run[doc["uid"]] = doc.get("run_start")
            runs.setdefault(doc.get("run_start"), []).append((i, name, doc))
        elif name in ("event", "event_page"):
            r = desc_run.get(doc.get("descriptor"))
            (runs.setdefault(r, []) if r is not None else orphans).append((i, name, doc))
        elif name in ("resource", "stream_resource"):
            res_run[doc["uid"]] = doc.get("run_start")
            runs.setdefault(doc.get("run_start"), []).append((i, name, doc))
        elif name == "stream_datum":
            r = desc_run.get(doc.get("descriptor"))
            (runs.setdefault(r, []) if r is not None else orphans).append((i, name, doc))
        elif name in ("datum", "datum_page"):
            r = res_run.get(doc.get("resource"))
            (runs.setdefault(r, []) if r is not None else orphans).append((i, name, doc))
        else:
            orphans.append((i, name, doc))
    return runs, orphans


def c01_documents(obs, validate=True):
    """Well-formed document stream per run, once the engine is idle."""
    tags = []
    docs = obs.docs + (obs.followup["all_docs"] if obs.followup else [])
    docs = obs.docs
    runs, orphans = group_runs(docs)
    if orphans:
        tags.append("document-refers-to-nothing-emitted-earlier")
    seen_uids = set()
    for name, doc in docs:
        if name == "datum":
            uids = [("datum", doc.get("datum_id"))]
        elif name == "datum_page":
            uids = [("datum", u) for u in doc.get("datum_id", [])]
        elif name == "event_page":
            uids = [("event", u) for u in doc.get("uid", [])]
        elif doc.get("uid") is not None:
            uids = [(name, doc["uid"])]
        else:
            uids = []
        for key in uids:
            if key in seen_uids:
                tags.append(f"uid-emitted-twice:{key[0]}")
            seen_uids.add(key)
    if validate:
        from event_model import DocumentNames, schema_validators

        for name, doc in docs:
            try:
                schema_validators[DocumentNames[name]].validate(doc)
            except Exception:  # noqa
                tags.append(f"schema-invalid:{name}")
    for uid, items in runs.items():
        names = [n for _, n, _ in items]
        if uid is None or names[0] != "start":
            tags.append("document-before-or-without-its-start")
            continue
        if names.count("start") != 1:
            tags.append("run-with-more-than-one-start")
        nstop = names.count("stop")
        if obs.state == "idle":
            if nstop == 0:
                tags.append("run-left-without-stop-at-idle")
            elif nstop > 1:
                tags.append("run-with-more-than-one-stop")
            elif names[-1] != "stop":
                tags.append("document-after-run-stop")
        elif nstop > 1:
            tags.append("run-with-more-than-one-stop")
        elif nstop == 1 and names[-1] != "stop":
            tags.append("document-after-run-stop")
        # descriptor before its events, inside the same run
        descs = {}
        for i, n, d in items:
            if n == "descriptor":
                descs[d["uid"]] = i
            elif n in ("event", "event_page", "stream_datum"):
                if d.get("descriptor") not in descs:
                    tags.append(f"{n}-before-its-descriptor")
    return sorted(set(tags))


def transitions(obs):
    tags = []
    for old, new in obs.trans:
        if new not in TABLE.get(old, []):
            tags.append(f"illegal-transition:{old}->{new}")
    return sorted(set(tags))


# ------------------------------------------------------------------------------------------------ lifecycle (C07 / C08)
def c07_lifecycle(obs, case=None):
    tags = transitions(obs)
    if obs.stuck:
        tags.append("engine-stuck")
    for c in obs.calls:
        if c["state"] not in ("idle", "paused"):
            tags.append(f"state-{c['state']}-after-{c['api']}-returned")
        if c["exc_type"] == "TransitionError" and c["api"] == "call":
            tags.append("RE-call-raised-TransitionError")
    if obs.state not in ("idle", "paused"):
        tags.append(f"final-state-{obs.state}")
    if obs.followup is not None:
        f = obs.followup
        if f["outcome"] != "ret" or f["state"] != "idle" or f["docs"] != ["start", "stop"]:
            tags.append("engine-unusable-for-next-call")
    return sorted(set(tags))


def section_at(obs, nmsgs):
    """Is the plan, per the documented rule, in a non-resumable section after executing msgs[:nmsgs]?
    'none' (no checkpoint ever), 'cleared' (last of checkpoint/clear_checkpoint is clear_checkpoint), 'checkpointed'."""
    last = "none"
    for m in obs.msgs[:nmsgs]:
        if m.command == "checkpoint":
            last = "checkpointed"
        elif m.command == "clear_checkpoint":
            last = "cleared"
    return last


def interruptions(obs):
    """[(kind, nmsgs, step, section)] for every transition into pausing / suspending."""
    out = []
    for (old, new), (n, step, nd, *_rw) in zip(obs.trans, obs.trans_meta):
        if new in ("pausing", "suspending"):
            out.append((new, n, step, section_at(obs, n), bool(_rw[1]) if len(_rw) > 1 else False))
        elif new == "aborting" and old == "running":
            # either an abort request, or a pause/suspension that found no checkpoint (FailedPause)
            aborts = [r for r in obs.reqs if r["kind"] == "abort" and r["out"][0] == "ret" and r["step"] <= step]
            if not aborts:
                out.append(("failed", n, step, section_at(obs, n), bool(_rw[1]) if len(_rw) > 1 else False))
    return out


def terminal_cause(obs):
    """First event documented to terminate the plan -> (cause, record).  cause in abort/stop/halt/failed-pause/None."""
    ev = []
    for r in obs.reqs:
        if r["kind"] in ("abort", "stop", "halt") and r["out"][0] == "ret":
            ev.append((r["step"], 0, r["kind"], r))
    for c in obs.calls:
        if c["api"] in ("abort", "stop", "halt") and c["outcome"] == "ret":
            ev.append((c["steps"], 1, c["api"], c))
    for kind, n, step, section, _inflight in interruptions(obs):
        if section == "cleared":
            ev.append((step, 0, "failed-pause", dict(kind=kind, nmsgs=n, step=step)))
    ev.sort(key=lambda x: (x[0], x[1]))
    return (ev[0][2], ev[0][3]) if ev else (None, None)


def c08_interrupted(obs, case=None):
    tags = []
    cause, _ = terminal_cause(obs)
    for i, c in enumerate(obs.calls):
        if c["api"] not in ("call", "resume"):
            continue
        if c["exc_type"] == "RunEngineInterrupted":
            if c["state"] == "paused":
                if not c["resumable"]:
                    tags.append("paused-but-not-resumable")
            elif c["state"] == "idle":
                if cause is None:
                    ints = interruptions(obs)
                    pe = obs.plan_end
                    if pe is not None and pe[0] == "return" and all(x[1] >= pe[3] for x in ints):
                        tags.append("RunEngineInterrupted-but-idle:pause-landed-after-plan-completed")
                    elif any(x[3] == "checkpointed" for x in ints) and any(m.command == "clear_checkpoint" for m in obs.msgs):
                        tags.append("RunEngineInterrupted-but-idle:checkpoint-after-clear_checkpoint-did-not-restore-resumability")
                    else:
                        tags.append("RunEngineInterrupted-but-idle-without-termination")
                if any(n == "start" for n, _ in obs.docs[: c["ndocs"]]):
                    runs, _ = group_runs(obs.docs[: c["ndocs"]])
                    if any("stop" not in [n for _, n, _ in items] for items in runs.values()):
                        tags.append("interrupted-idle-with-open-run")
            else:
                tags.append(f"RunEngineInterrupted-in-state-{c['state']}")
        elif c["outcome"] == "ret":
            if c["state"] != "idle":
                tags.append(f"call-returned-normally-in-state-{c['state']}")
            if obs.plan_end is None or obs.plan_end[0] != "return":
                tags.append("call-returned-normally-but-plan-did-not-complete")
    return sorted(set(tags))


# ------------------------------------------------------------------------------------------------ exit status (C02)
def _cause_with_ndocs(obs):
    """(cause, ndocs when it happened).  cause in stop/abort/halt/failed-pause/fault/None."""
    ev = []
    for r in obs.reqs:
        if r["kind"] in ("abort", "stop", "halt") and r["out"][0] == "ret":
            ev.append((r["step"], r["kind"], r["ndocs"]))
    prev_ndocs = None
    for c in obs.calls:
        if c["api"] in ("abort", "stop", "halt") and c["outcome"] == "ret" and prev_ndocs is not None:
            ev.append((prev_steps, c["api"], prev_ndocs))
        prev_ndocs, prev_steps = c["ndocs"], c["steps"]
    for (old, new), (n, step, nd, *_rw) in zip(obs.trans, obs.trans_meta):
        if new == "aborting" and old in ("running", "pausing", "suspending"):
            if not [r for r in obs.reqs if r["kind"] == "abort" and r["out"][0] == "ret" and r["step"] <= step]:
                ev.append((step, "failed-pause", nd))
    fa = getattr(obs.lab, "fault_at", None)
    if fa is not None:
        ev.append((fa[0], "fault", fa[2]))
    ev.sort(key=lambda x: x[0])
    return (ev[0][1], ev[0][2]) if ev else (None, None)


def last_ndocs_before(obs):
    return obs.calls[-2]["ndocs"] if len(obs.calls) > 1 else 0


def c02_exit_status(obs, case=None):
    tags = []
    if obs.state != "idle" or obs.stuck:
        return tags
    cause, nd = _cause_with_ndocs(obs)
    last = obs.calls[-1]
    exc = last["exc"]
    stops = [(i, d) for i, (n, d) in enumerate(obs.docs) if n == "stop"]
    failed = last["api"] in ("call", "resume") and last["exc_type"] not in (None, "RunEngineInterrupted")
    if cause == "fault" and not failed and last["outcome"] == "ret":
        cause = None  # the plan handled / was not affected by the fault
        fm = getattr(obs.lab, "fault_msg", None)
        if obs.lab.fail_status is not None and fm is not None and obs.lab.fault_at[1] >= 1:
            idx = next((i for i, m in enumerate(obs.msgs) if m is fm), None)
            grp = fm.kwargs.get("group")
            if idx is not None and grp is not None and idx >= obs.lab.fault_at[1] - 1:
                waited = any(i > idx and m.command == "wait" and (m.kwargs.get("group") == grp or (m.args and m.args[0] == grp)) for i, m in enumerate(obs.msgs))
                if waited:
                    tags.append("failed-status-the-plan-waited-on-did-not-fail-the-run")
    if failed and cause != "fault":
        # an unhandled error other than the injected fault ended the call (e.g. the plan itself raised): same rule, 'fail' + reason
        cause, nd = "fault", last_ndocs_before(obs)
    closes = [(stp, m) for m, (stp, _) in zip(obs.msgs, obs.msg_meta) if m.command == "close_run"]
    used_closes = set()
    for i, d in stops:
        st, reason = d.get("exit_status"), d.get("reason", "")
        sd = obs.doc_meta[i][0] if i < len(obs.doc_meta) else None
        by_msg = []
        for ci, (stp, m) in enumerate(closes):
            if sd is not None and stp <= sd <= stp + 1 and ci not in used_closes:
                used_closes.add(ci)
                by_msg = [m]
                break
        if by_msg and by_msg[-1].kwargs.get("exit_status") in (None, "success") and not by_msg[-1].kwargs.get("reason"):
            # the plan itself closed this run as a normal completion before any interruption reached it
            if st != "success":
                tags.append("completed-run-not-marked-success")
            continue
        if cause is None or (nd is not None and i < nd and cause != "fault"):
            if st != "success":
                tags.append("completed-run-not-marked-success")
            continue
        if cause == "fault":
            if failed:
                if i >= nd:
                    if st != "fail":
                        tags.append("failed-run-not-marked-fail")
                    elif reason != str(exc) and not ((obs.lab.fail_call is not None and reason.endswith(f"(call {obs.lab.fail_call})")) or (obs.lab.fail_status is not None and reason)):
                        tags.append("fail-reason-is-not-the-exception-text")
            continue
        exp = {"stop": "success", "abort": "abort", "halt": "abort", "failed-pause": "abort"}[cause]
        if st != exp:
            fa = getattr(obs.lab, "fault_at", None)
            term = next((r for r in obs.reqs if r["kind"] in ("stop", "abort", "halt")), None)
            if st == "fail" and fa is not None and term is not None and fa[0] >= term["step"]:
                continue  # the injected device fault struck the clean-up that follows the termination request: the plan then dies of it, 'fail' is consistent
            tags.append(f"run-closed-after-{cause}-marked-{st}")
    # what the blocking calls raised
    for c in obs.calls:
        if c["api"] in ("call", "resume"):
            ended_paused = c["state"] == "paused"
            if c["outcome"] == "ret":
                continue  # C08 checks the normal-return side
            if c["exc_type"] == "RunEngineInterrupted":
                continue
            if c["exc_type"] == "DeviceError":
                if getattr(obs.lab, "fault_at", None) is None:
                    tags.append("DeviceError-without-fault")
                continue
            if c["exc_type"] == "FailedStatus":
                if type(c["exc"].__cause__).__name__ != "DeviceError" and not any(type(a).__name__ == "DeviceError" for a in c["exc"].args):
                    tags.append("FailedStatus-not-chained-to-device-exception")
                continue
            # any other exception raised by resume()/RE(): with no fault injected and a corpus plan that never raises by
            # itself, an interruption must surface as RunEngineInterrupted (or not at all), not as an engine-internal error
            if getattr(obs.lab, "fault_at", None) is None and (obs.plan_end or [None])[0] != "raised":
                tags.append(f"interruption-surfaced-as-{c['exc_type']}")
            elif getattr(obs.lab, "fault_at", None) is None and c["exc_type"] in ("AssertionError",):
                tags.append(f"interruption-surfaced-as-{c['exc_type']}")
    if failed and cause == "fault":
        pass
    elif cause in ("stop", "abort", "halt", "failed-pause"):
        first_after = [c for c in obs.calls if c["api"] in ("call", "resume")]
        if first_after and not any(c["exc_type"] == "RunEngineInterrupted" for c in first_after):
            tags.append("interruption-did-not-raise-RunEngineInterrupted")
    return sorted(set(tags))


# ------------------------------------------------------------------------------------------------ cleanup at idle (C06)
def c06_cleanup(obs, case=None):
    tags = []
    if obs.state != "idle" or obs.stuck:
        return tags
    per = defaultdict(list)
    for j, dev, op, args in obs.ledger:
        if j == obs.lab.fail_call:
            if op in ("unstage", "stop", "collect"):
                per[dev].append((j, op + "-attempt"))  # the engine tried; the device refused
            continue  # a failing stage/kickoff/set did not happen
        per[dev].append((j, op))
    for dev, ops in per.items():
        names = [o for _, o in ops]
        if "stop-attempt" in names:
            ops = [(j, "stop" if o == "stop-attempt" else o) for j, o in ops]
        if "collect-attempt" in names:
            ops = [(j, "collect" if o == "collect-attempt" else o) for j, o in ops]
        ns, nu, na = names.count("stage"), names.count("unstage"), names.count("unstage-attempt")
        if ns > 1:
            ns = max(1, min(ns, nu))  # staging a device twice in one call is outside the bound: only require that it was unstaged
        if ns and not (nu == ns or (nu < ns <= nu + na)):
            tags.append("device-staged-and-unstaged-unequal-times")
        if "set" in names:
            last_set = max(j for j, o in ops if o == "set")
            if not any(o == "stop" and j > last_set for j, o in ops):
                tags.append("moved-device-not-stopped-after-last-set")
        if "kickoff" in names:
            last_k = max(j for j, o in ops if o == "kickoff")
            attempted = any(m.command == "collect" and (m.obj.name == dev or any(getattr(a, "name", None) == dev for a in m.args)) for m in obs.msgs)
            if not any(o == "collect" and j > last_k for j, o in ops) and not attempted:
                tags.append("kicked-off-flyer-never-collected")
    for name, dev in obs.devices.items():
        if hasattr(dev, "subs") and dev.subs:
            tags.append("monitor-subscription-left-on-device-at-idle")
    if getattr(obs, "percall_log", None) is not None and obs.followup is not None:
        if obs.percall_after_followup:
            tags.append("per-call-subscription-received-documents-of-next-call")
    return sorted(set(tags))


# ------------------------------------------------------------------------------------------------ recorded data (C03 / C05)
def event_table(docs):
    """[ {stream: {seq_num: data}}, ... ] per run (in start order) with the LAST event per seq_num, plus stops."""
    runs, _ = group_runs(docs)
    out = []
    for uid, items in runs.items():
        if uid is None:
            continue
        names = {}
        table = defaultdict(dict)
        emitted = defaultdict(list)
        stop = None
        for i, n, d in items:
            if n == "descriptor":
                names[d["uid"]] = d.get("name")
            elif n == "event":
                s = names.get(d["descriptor"])
                table[s][d["seq_num"]] = d["data"]
                emitted[s].append((i, d["seq_num"]))
            elif n == "event_page":
                s = names.get(d["descriptor"])
                for k, sn in enumerate(d["seq_num"]):
                    table[s][sn] = {key: v[k] for key, v in d["data"].items()}
                    emitted[s].append((i, sn))
            elif n == "stop":
                stop = d
        out.append(dict(uid=uid, table=dict(table), emitted=dict(emitted), stop=stop, names=names))
    return out


def c03_same_data(obs, ref_docs):
    tags = []
    for c in obs.calls:
        if c["api"] in ("call", "resume") and c["outcome"] == "exc" and c["exc_type"] != "RunEngineInterrupted":
            if c["exc_type"] == "TransitionError" and c["state"] == "suspending":
                tags.append("!engine-left-in-suspending-by-late-suspension")  # the C07 finding seen from here; no landing context
            else:
                tags.append(f"{'resume' if c['api'] == 'resume' else 'call'}-raised-{c['exc_type']}")
    if obs.stuck:
        tags.append("engine-stuck")
    if tags or obs.state != "idle":
        return sorted(set(tags))
    for (old, new), meta in zip(obs.trans, obs.trans_meta):
        if new in ("pausing", "suspending") and len(meta) > 3 and not meta[3]:
            return sorted(set(tags))  # interrupted while the plan had declared itself non-rewindable: re-taking is not promised
    a, b = event_table(ref_docs), event_table(obs.docs)
    if len(a) != len(b):
        return ["number-of-runs-differs-from-uninterrupted-execution"]
    for ra, rb in zip(a, b):
        sa = {k: v for k, v in ra["table"].items() if k != "interruptions"}
        sb = {k: v for k, v in rb["table"].items() if k != "interruptions"}
        if set(sa) != set(sb):
            tags.append("streams-differ-from-uninterrupted-execution")
            continue
        for s in sa:
            if set(sa[s]) != set(sb[s]):
                tags.append("seq_nums-differ-from-uninterrupted-execution")
            else:
                for sn in sa[s]:
                    if sa[s][sn] != sb[s][sn]:
                        tags.append("final-reading-differs-from-uninterrupted-execution")
        na = {k: v for k, v in (ra["stop"] or {}).get("num_events", {}).items() if k != "interruptions"}
        nb = {k: v for k, v in (rb["stop"] or {}).get("num_events", {}).items() if k != "interruptions"}
        if na != nb:
            tags.append("num_events-differs-from-uninterrupted-execution")
        if (ra["stop"] or {}).get("exit_status") != (rb["stop"] or {}).get("exit_status"):
            tags.append("exit-status-differs-from-uninterrupted-execution")
    return sorted(set(tags))


# ------------------------------------------------------------------------------------------------ numbering (C05 / C40)
def _stream_kind(name, rec):
    if name == "interruptions":
        return "interruptions"
    if name and name.endswith("_monitor"):
        return "monitor"
    return "bundle"


def c05_numbering(obs, case=None):
    tags = []
    if obs.state != "idle" or obs.stuck:
        return tags
    rewinds = [nd for nd, _ in obs.rewinds]
    runs, _ = group_runs(obs.docs)
    for rec in event_table(obs.docs):
        stop = rec["stop"]
        if stop is None:
            continue
        ne = stop.get("num_events", {})
        items = runs[rec["uid"]]
        # events produced by a replayed 'collect' message are re-taken data like bundle events; stream datums are checked separately below
        paged = {rec["names"].get(d["descriptor"]) for _, n, d in items if n == "stream_datum"}
        sd = defaultdict(list)
        for i, n, d in items:
            if n == "stream_datum":
                sd[rec["names"].get(d["descriptor"])].append((d["seq_nums"]["start"], d["seq_nums"]["stop"], d["indices"]["start"], d["indices"]["stop"]))
        for s, em in rec["emitted"].items():
            nums = [sn for _, sn in em]
            N = ne.get(s, 0)
            if sorted(set(nums)) != list(range(1, N + 1)):
                tags.append(f"seq_nums-are-not-1..num_events:{_stream_kind(s, rec) if s not in paged else 'collect'}")
            kind = "collect" if s in paged else _stream_kind(s, rec)
            seen = {}
            for i, sn in em:
                if sn in seen:
                    if kind != "bundle":
                        tags.append(f"seq_num-repeated-in-{kind}-stream")
                    elif not any(seen[sn] < r <= i + 1 for r in rewinds):
                        tags.append("seq_num-repeated-without-a-rewind-in-between")
                seen[sn] = i
        for s in ne:
            if s not in rec["emitted"] and s not in sd and ne[s] != 0:
                tags.append("num_events-counts-a-stream-without-events")
        for s, ranges in sd.items():
            nxt = 1
            for a, b, ia, ib in ranges:
                if a != nxt:
                    tags.append("stream-datum-seq_nums-not-contiguous")
                if b - a != ib - ia:
                    tags.append("stream-datum-seq_nums-and-indices-differ-in-length")
                nxt = b
            if s not in rec["emitted"] and ne.get(s, 0) != nxt - 1:
                tags.append("num_events-differs-from-stream-datum-coverage")
    return sorted(set(tags))


# ------------------------------------------------------------------------------------------------ deferred pause (C09)
def _replayed_after(obs, n):
    """Msg objects executed before index n that are executed again at or after n."""
    old = {id(m) for m in obs.msgs[:n]}
    return [m for m in obs.msgs[n:] if id(m) in old]


def c09_deferred(obs, case=None):
    tags = []
    reqs = [r for r in obs.reqs if r["kind"] == "defer"]
    if not reqs or obs.stuck:
        return tags
    r = reqs[0]
    if r["out"][0] == "exc" or r["state"] != "running":
        return tags
    if any(q["kind"] not in ("defer", "update", "suspend") for q in obs.reqs):
        other = True  # a second request of another kind may legitimately end or pause the plan earlier (a suspension may not)
    else:
        other = False
    first = obs.calls[0]
    ncall0 = [i for i, (_, c) in enumerate(obs.msg_meta) if c == 0]
    end0 = (ncall0[-1] + 1) if ncall0 else 0
    # d: index of the first message pulled from the plan with the deferred request already registered
    d = next((i for i in range(end0) if obs.msg_deferred[i]), None)
    if d is None:
        # the request was registered after the last message of the first call was pulled
        if first["outcome"] == "ret" and not other:
            if not first["deferred"]:
                tags.append("pending-deferred-pause-not-reported-after-plan-completed")
            if obs.followup is not None and obs.followup_deferred:
                tags.append("deferred-pause-still-reported-after-the-next-plan-started")
        return tags
    cps = [i for i in range(max(d - 1, 0), end0) if obs.msgs[i].command == "checkpoint"]
    if section_at(obs, (cps[0] + 1) if cps else end0) == "cleared":
        return tags  # non-resumable plan: C10's business
    if other:
        return tags
    real = [i for i in cps if i >= d]
    if first["state"] == "paused":
        at = first["nmsgs"] - 1
        if obs.msgs[at].command != "checkpoint":
            tags.append("deferred-pause-took-effect-at-a-message-that-is-not-a-checkpoint")
        elif at not in cps[:1] + real[:1]:
            tags.append("deferred-pause-skipped-the-next-checkpoint")
        if any(c2["api"] == "resume" for c2 in obs.calls) and _replayed_after(obs, first["nmsgs"]):
            tags.append("resume-after-deferred-pause-replayed-messages")
    else:
        if real:
            tags.append("deferred-pause-did-not-pause-at-a-following-checkpoint")
        elif first["outcome"] == "exc" and first["exc_type"] == "RunEngineInterrupted":
            tags.append("deferred-pause-interrupted-a-plan-with-no-further-checkpoint")
        elif first["outcome"] == "ret":
            if not first["deferred"]:
                tags.append("pending-deferred-pause-not-reported-after-plan-completed")
            if obs.followup is not None and obs.followup_deferred:
                tags.append("deferred-pause-still-reported-after-the-next-plan-started")
    # context: a suspension that takes effect while the checkpoint (sleeping before its hard pause) is in flight cancels it
    if any(m.command == "_start_suspender" and i > 0 and obs.msgs[i - 1].command == "checkpoint" and obs.msg_deferred[i - 1] for i, m in enumerate(obs.msgs)):
        tags = [t + "@checkpoint-interrupted-in-flight-by-a-suspension" for t in tags]
    return sorted(set(tags))


# ------------------------------------------------------------------------------------------------ non-resumable sections (C10)
def c10_nonresumable(obs, case=None):
    tags = []
    if obs.stuck:
        return ["engine-stuck"]
    hits = [x for x in interruptions(obs) if x[3] == "cleared"]
    if not hits:
        return tags
    kind, n, step, _, _ = hits[0]
    call = obs.calls[0]
    for c in obs.calls:
        if c["steps"] >= step:
            call = c
            break
    if call["state"] == "paused":
        tags.append("paused-inside-a-non-resumable-section")
        return tags
    if obs.state != "idle":
        tags.append(f"final-state-{obs.state}-after-interrupting-a-non-resumable-section")
    if call["exc_type"] != "RunEngineInterrupted":
        tags.append(f"interruption-of-non-resumable-section-raised-{call['exc_type']}-instead-of-RunEngineInterrupted:{kind}")
    if _replayed_after(obs, n):
        tags.append("messages-replayed-after-interrupting-a-non-resumable-section")
    cleanup = [m for m in obs.msgs if m.command == "null" and m.args and str(m.args[0]).startswith("cleanup")]
    wants_cleanup = case is not None and case.get("plan") in ("cleanup", "two_runs_cleared")
    if wants_cleanup and not cleanup:
        tags.append("cleanup-did-not-run-after-interrupting-a-non-resumable-section")
    runs, _ = group_runs(obs.docs)
    if obs.state == "idle" and any("stop" not in [nm for _, nm, _ in items] for items in runs.values()):
        tags.append("run-left-open-after-interrupting-a-non-resumable-section")
    return sorted(set(tags))


# ------------------------------------------------------------------------------------------------ suspension (C11)
def c11_suspension(obs, case=None, pre="pre", post="post"):
    tags = []
    if obs.stuck:
        return ["engine-stuck"]
    msgs = obs.msgs
    starts = [i for i, m in enumerate(msgs) if m.command == "_start_suspender"]
    HELP = {"rewindable", "wait_for", "_start_suspender", "_resume_from_suspender"}
    for s in starts:
        # the matching resume: first _resume_from_suspender after s that is not claimed by a nested start
        depth, r = 0, None
        for j in range(s + 1, len(msgs)):
            if msgs[j].command == "_start_suspender":
                depth += 1
            elif msgs[j].command == "_resume_from_suspender":
                if depth == 0:
                    r = j
                    break
                depth -= 1
        if r is None:
            continue  # terminated while suspended
        for m in msgs[s + 1: r]:
            if m.command in HELP:
                continue
            if m.command == "null" and m.args and m.args[0] in (pre, post):
                continue
            tags.append("plan-message-executed-while-suspended")
        t_s, t_r = obs.msg_times[s], obs.msg_times[r]
        rel = [q for q in obs.reqs if q["kind"] == "suspend"]
        if rel and t_r + 1e-9 < min(q["t"] for q in rel) + 1.0:
            paused_meanwhile = any(new == "pausing" and s < meta[0] <= r + 1 for (old, new), meta in zip(obs.trans, obs.trans_meta))
            tags.append("plan-resumed-before-the-suspension-was-released" + (":after-pause-and-resume-during-the-suspension" if paused_meanwhile else ""))
        if pre is not None and case and case.get("prepost"):
            if not any(m.command == "null" and m.args and m.args[0] == pre for m in msgs[s + 1: r]):
                tags.append("pre-plan-did-not-run-before-waiting")
            after = msgs[r + 1: r + 4]
            preempted = any(m.command == "_start_suspender" for m in after)  # another suspension took effect right at the release: its own pre/wait come first
            if not preempted and not any(m.command == "null" and m.args and m.args[0] == post for m in after):
                tags.append("post-plan-did-not-run-right-after-release")
        # every device moved before the suspension is told to stop while suspended
        moved = {d for (j, d, op, a), lm in zip(obs.ledger, obs.ledger_msg) if op == "set" and lm is not None and any(lm is x for x in msgs[:s])}
        stopped = {d for (j, d, op, a), lm in zip(obs.ledger, obs.ledger_msg) if op == "stop" and lm is msgs[s]}
        if moved - stopped:
            tags.append("moved-device-not-stopped-at-suspension")
    first = obs.calls[0]
    if starts and first["outcome"] == "exc" and first["exc_type"] == "RunEngineInterrupted" and first["state"] == "paused" and not any(q["kind"] in ("pause", "defer") for q in obs.reqs):
        tags.append("suspension-returned-control-to-the-caller")
    for c in obs.calls:
        if c["api"] in ("call", "resume") and c["outcome"] == "exc" and c["exc_type"] != "RunEngineInterrupted":
            if c["exc_type"] == "TransitionError" and c["state"] == "suspending":
                tags.append("!engine-left-in-suspending-by-late-suspension")
            else:
                tags.append(f"{c['api']}-raised-{c['exc_type']}")
    return sorted(set(tags))


# ------------------------------------------------------------------------------------------------ device errors (C12)
def c12_errors(obs, case=None):
    tags = []
    lab = obs.lab
    if lab.fault_at is None or obs.stuck:
        return tags
    fm = lab.fault_msg
    thrown = [(m, e, n) for m, e, n in obs.thrown if type(e).__name__ in ("DeviceError", "DeviceAttrError", "FailedStatus")]
    last = obs.calls[-1]
    if lab.fail_call is not None:
        if fm is None:
            return tags  # the failing call was made by the engine's own cleanup, not on behalf of a message
        op = next((o for j, d, o, a in obs.ledger if j == lab.fail_call), None)
        if op in ("stop", "clear_sub", "unstage") and fm.command not in ("stop", "unstage", "unmonitor"):
            return tags  # made by the engine while pausing/suspending/cleaning up during that message: logged and swallowed by design
        first_exec = next((i for i, m in enumerate(obs.msgs) if m is fm), None)
        if first_exec is not None and first_exec < lab.fault_at[1] - 1:
            return tags  # the failure happened while the message was being *replayed* after a rewind: the plan is not at that yield
        plan_msgs = {id(m) for m, _, _ in obs.thrown} | {id(m) for m in obs.msgs}
        if not thrown:
            if any(fm is m for m in obs.msgs):
                tags.append("device-exception-never-reached-the-plan")
        else:
            m, e, n = thrown[0]
            if m is not fm and not (m.command == fm.command and m.obj is fm.obj):
                tags.append("device-exception-thrown-at-a-different-message")
            if last["api"] in ("call", "resume") and last["outcome"] == "exc" and last["exc_type"] not in ("DeviceError", "DeviceAttrError", "RunEngineInterrupted", "IllegalMessageSequence"):
                tags.append(f"unhandled-device-exception-surfaced-as-{last['exc_type']}")
        if thrown and last["outcome"] == "ret" and obs.state == "idle" and (obs.plan_end or [None])[0] == "raised":
            tags.append("call-returned-normally-although-the-plan-died-of-a-device-error")
    else:
        if fm is None:
            return tags
        idx = next((i for i, m in enumerate(obs.msgs) if m is fm), None)
        if idx is None:
            return tags
        grp = (obs.msg_kw[idx] if getattr(obs, "msg_kw", None) else fm.kwargs).get("group")  # as the plan sent it the first time
        waits = [i for i, m in enumerate(obs.msgs) if i > idx and m.command == "wait" and (m.kwargs.get("group") == grp or (m.args and m.args[0] == grp))]
        if idx < lab.fault_at[1] - 1:
            # the status was created while the message was being *replayed* after a rewind.  If the plan had already got
            # past the wait on that group before the rewind, it is not at that yield any more (exempt); if it had not
            # reached the wait yet, the failure must still surface at that wait.
            if not waits or waits[0] < lab.fault_at[1] - 1:
                return tags
        if not thrown:
            if waits and obs.state == "idle" and last["outcome"] == "ret":
                tags.append("failed-status-never-reached-the-plan")
        else:
            m, e, n = thrown[0]
            if type(e).__name__ != "FailedStatus":
                tags.append(f"failed-status-surfaced-as-{type(e).__name__}")
            elif type(e.__cause__).__name__ not in ("DeviceError",):
                tags.append("FailedStatus-not-chained-to-the-device-exception")
            # position of the yield at which it was thrown: the message object m, first executed at...
            mi = max((i for i, x in enumerate(obs.msgs[:n]) if x is m), default=None)
            if waits and mi is not None:
                w = waits[0]
                # replays re-execute the wait: use the last execution of the first matching wait object before the throw
                w_obj = obs.msgs[w]
                w_last = max((i for i, x in enumerate(obs.msgs[:n]) if x is w_obj), default=w)
                if mi > w_last:
                    later_cp = [i for i, x in enumerate(obs.msgs[:n]) if x.command == "checkpoint" and i > w_last]
                    tags.append("failed-status-reached-the-plan-after-the-wait-on-its-group" + ("-and-a-later-checkpoint" if later_cp else ""))
    return sorted(set(tags))


# ------------------------------------------------------------------------------------------------ responses (C13)
def c13_responses(obs, case=None):
    tags = []
    if obs.stuck:
        return ["engine-stuck"]
    lab = obs.lab
    status_for = defaultdict(list)
    for (j, dev, op, args), lm in zip(obs.ledger, obs.ledger_msg):
        if lm is not None and j in lab.status_of_call:
            status_for[id(lm)].append(lab.status_of_call[j])
    starts = [d["uid"] for n, d in obs.docs if n == "start"]
    nopen = 0
    executed = {id(m) for m in obs.msgs}
    for m, resp, nm in obs.responses:
        c = m.command
        if id(m) not in executed:
            continue
        how = "got-None" if resp is None else "got-something-else"
        if c == "open_run":
            if not isinstance(resp, str) or nopen >= len(starts) or resp != starts[nopen]:
                tags.append(f"open_run-response-is-not-the-new-run's-uid:{how}")
            nopen += 1
        elif c == "read":
            keys = set(m.obj.describe().keys()) if hasattr(m.obj, "describe") else None
            if not isinstance(resp, dict) or (keys is not None and set(resp.keys()) != keys):
                tags.append(f"read-response-is-not-the-reading-of-that-object:{how}")
        elif c in ("set", "trigger", "kickoff", "complete"):
            if not any(resp is st for st in status_for.get(id(m), [])):
                tags.append(f"{c}-response-is-not-the-status-returned-by-the-device:{how}")
        elif c == "wait":
            if not isinstance(resp, bool):
                tags.append(f"wait-response-is-not-the-done-flag:{how}")
        elif c in ("null", "checkpoint", "clear_checkpoint", "sleep", "create"):
            if resp is not None:
                tags.append(f"{c}-received-a-response-meant-for-another-message")
        elif c == "subscribe":
            if not isinstance(resp, int):
                tags.append(f"subscribe-response-is-not-a-token:{how}")
        elif c in ("stage", "unstage"):
            ok = (isinstance(resp, list) and m.obj in resp) or any(resp is st for st in status_for.get(id(m), []))
            if not ok:
                tags.append(f"{c}-response-is-not-what-the-device-returned:{how}")
    first = obs.calls[0]
    if len(obs.calls) == 1 and first["outcome"] == "ret":
        val = first["value"]
        if hasattr(val, "run_start_uids"):
            if tuple(val.run_start_uids) != tuple(starts):
                tags.append("result-run_start_uids-are-not-the-opened-runs-in-order")
            pe = obs.plan_end
            if pe is not None and pe[0] == "return" and val.plan_result != pe[1]:
                tags.append("result-plan_result-is-not-the-plan's-return-value")
            if val.exit_status != "success":
                tags.append("result-exit_status-not-success-after-normal-completion")
        elif tuple(val) != tuple(starts):
            tags.append("call-did-not-return-the-uids-of-the-opened-runs-in-order")
    inner = obs.devices.get("inner_log") if isinstance(obs.devices, dict) else None
    if inner:
        for m, r in inner:
            if id(m) not in executed and r is not None:
                tags.append("dropped-message-received-a-response-meant-for-another-message")
    for c in obs.calls:
        if c["api"] in ("call", "resume") and c["outcome"] == "exc" and c["exc_type"] not in ("RunEngineInterrupted",):
            if c["exc_type"] == "TransitionError" and c["state"] == "suspending":
                tags.append("!engine-left-in-suspending-by-late-suspension")
    return sorted(set(tags))


# ------------------------------------------------------------------------------------------------ interruption records (C40)
def _docs_before_step(obs, step):
    return sum(1 for (s, _c, _t) in obs.doc_meta if s < step)


def c40_interruptions(obs, case=None, enabled=True):
    tags = []
    if obs.stuck or obs.state != "idle":
        return tags
    runs, _ = group_runs(obs.docs)
    spans = {}
    for uid, items in runs.items():
        if uid is None:
            continue
        i0 = items[0][0]
        i1 = next((i for i, n, d in items if n == "stop"), len(obs.docs))
        spans[uid] = (i0, i1)
    # interruption happenings: (doc count when it happened, label)
    hap = []
    for (old, new), meta in zip(obs.trans, obs.trans_meta):
        if new == "pausing":
            hap.append((meta[2], "pause"))
    prev = None
    for c in obs.calls:
        if c["api"] == "resume" and prev is not None:
            hap.append((prev["ndocs"], "resume"))
        prev = c
    for m, (step, _c) in zip(obs.msgs, obs.msg_meta):
        if m.command == "_start_suspender":
            hap.append((_docs_before_step(obs, step + 1), "suspended"))
    for rec in event_table(obs.docs):
        uid = rec["uid"]
        i0, i1 = spans[uid]
        ev = rec["emitted"].get("interruptions", [])
        if not enabled:
            if "interruptions" in rec["names"].values():
                tags.append("interruptions-stream-exists-although-recording-is-disabled")
            continue
        exp = sorted(h for h in hap if i0 < h[0] <= i1)
        nums = [sn for _, sn in ev]
        if len(set(nums)) != len(nums):
            tags.append("interruption-records-share-a-seq_num")
        if len(ev) != len(exp):
            # an interruption racing with the run's own close may or may not be recorded: tolerate happenings at the very edge
            edge = [h for h in hap if h[0] in (i1, i1 + 1, i0, i0 + 1)]
            if not (len(exp) - len(edge) <= len(ev) <= len(exp) + len(edge)):
                tags.append("number-of-interruption-records-differs-from-pauses-suspensions-and-resumes")
        if (rec["stop"] or {}).get("num_events", {}).get("interruptions", 0) != len(set(nums)):
            tags.append("num_events-does-not-count-the-interruption-records")
    return sorted(set(tags))


# ------------------------------------------------------------------------------------------------ monitors (C41)
def c41_monitors(obs, case=None, stream="sig_monitor", signal="sig"):
    tags = []
    if obs.stuck:
        return ["engine-stuck"]
    msgs = obs.msgs
    # the engine's view at a given loop step, from the message log
    def view(step):
        monitored = suspended = False
        open_runs = 0
        for m, (s, _c) in zip(msgs, obs.msg_meta):
            if s >= step:
                break
            c = m.command
            if c == "open_run":
                open_runs += 1
            elif c == "close_run":
                open_runs -= 1
                monitored = False
            elif c == "monitor" and m.obj.name == signal:
                monitored = True
            elif c == "unmonitor" and m.obj.name == signal:
                monitored = False
            elif c == "_start_suspender":
                suspended = True
            elif c == "_resume_from_suspender":
                suspended = False
        return monitored, suspended, open_runs

    values = defaultdict(int)
    for n, d in obs.docs:
        if n == "event" and signal in d.get("data", {}):
            values[d["data"][signal]] += 1
    ups = [r for r in obs.reqs if r["kind"] == "update"]
    for u in ups:
        monitored, suspended, open_runs = view(u["step"])
        # message boundaries are fuzzy by a step or two: only judge updates that are clearly inside or clearly outside
        near = any(abs(s - u["step"]) <= 2 and m.command in ("monitor", "unmonitor", "close_run", "open_run", "_start_suspender", "_resume_from_suspender")
                   for m, (s, _c) in zip(msgs, obs.msg_meta))
        near = near or any(abs(meta[1] - u["step"]) <= 2 for (old, new), meta in zip(obs.trans, obs.trans_meta) if new in ("pausing", "paused", "running", "suspending", "idle"))
        got = values.get(u["value"], 0)
        if got > 1:
            tags.append("monitor-update-reported-more-than-once")
        if near:
            continue
        should = monitored and open_runs > 0 and u["state"] == "running" and not suspended
        if should and got == 0:
            lost_monitor = any(x[4] and 0 < x[1] <= len(msgs) and msgs[x[1] - 1].command == "monitor" for x in interruptions(obs))
            tags.append("monitor-update-lost-while-run-open-and-running" + (":monitor-message-was-interrupted-in-flight" if lost_monitor else ""))
        if not should and got:
            why = "paused" if u["state"] in ("paused", "pausing") else ("suspended" if suspended else ("not-monitored" if not monitored else "no-open-run"))
            tags.append(f"monitor-update-reported-while-{why}")
    if values.get(999):
        tags.append("monitor-reported-an-update-made-while-the-RunStop-was-being-published")
    if obs.state == "idle" and getattr(obs.devices.get(signal), "subs", None):
        tags.append("monitor-subscription-left-on-device-at-idle")
    return sorted(set(tags))


# ------------------------------------------------------------------------------------------------ trace spans (C42)
class RecSpan:
    def __init__(self, name, log):
        self.name, self.attrs, self.ended = name, {}, 0
        log.append(self)

    def set_attribute(self, k, v):
        self.attrs[k] = v

    def end(self, *a, **k):
        self.ended += 1

    def is_recording(self):
        return True


def install_tracer(lab):
    """Bind a recording tracer as bluesky.run_engine.tracer for this lab (restored by lab.close via lab.cleanups)."""
    import bluesky.run_engine as rem

    lab.spans = []
    saved = rem.tracer

    class T:
        def start_span(self, name, *a, **k):
            return RecSpan(name, lab.spans)

    rem.tracer = T()
    lab.cleanups = getattr(lab, "cleanups", []) + [lambda: setattr(rem, "tracer", saved)]


def c42_spans(obs, case=None):
    tags = []
    if obs.stuck or obs.state != "idle":
        return tags
    spans = [s for s in obs.lab.spans if s.name.endswith(" run")]
    if obs.followup is not None and spans:
        spans = spans[:-1]  # the follow-up run's span
    starts = [d for n, d in obs.docs if n == "start"]
    stops = {d["run_start"]: d for n, d in obs.docs if n == "stop"}
    nopen_msgs = sum(1 for m in obs.msgs if m.command == "open_run")
    if len(spans) < len(starts):
        tags.append("opened-run-without-a-span")
    # spans are created in open_run order; an open_run that failed before emitting its start has a span but no run
    if len(spans) != len(starts):
        return sorted(set(tags)) if len(spans) < len(starts) else sorted(set(tags))
    for sp, st in zip(spans, starts):
        stop = stops.get(st["uid"])
        if stop is None:
            continue
        if sp.ended == 0:
            tags.append("span-of-a-closed-run-never-ended")
        elif sp.ended > 1:
            tags.append("span-ended-more-than-once")
        es = sp.attrs.get("exit_status")
        want = stop.get("exit_status")
        if sp.ended and es != want and not (want == "abort" and es == "aborted"):
            tags.append("span-exit-status-differs-from-the-run's-RunStop")
    return sorted(set(tags))
