"""Oracles over an ``Obs`` produced by vlib.sweep.run_case.  Each returns a list of finding tags ([] = held)."""
from collections import OrderedDict, defaultdict

TABLE = {  # copied from RunEngineStateMachine.Meta.transitions at design time (a mutation that widens the table is still caught)
    "idle": ["running", "panicked"],
    "running": ["idle", "pausing", "halting", "stopping", "aborting", "suspending", "panicked"],
    "pausing": ["paused", "idle", "halting", "aborting", "panicked"],
    "suspending": ["running", "halting", "aborting", "panicked"],
    "paused": ["idle", "running", "halting", "stopping", "aborting", "panicked"],
    "halting": ["idle", "panicked"],
    "stopping": ["idle", "panicked"],
    "aborting": ["idle", "panicked"],
    "panicked": [],
}


def group_runs(docs):
    """-> (runs: OrderedDict start_uid -> list of (idx, name, doc), orphans)."""
    runs, orphans = OrderedDict(), []
    desc_run, res_run = {}, {}
    for i, (name, doc) in enumerate(docs):
        if name == "start":
            runs[doc["uid"]] = [(i, name, doc)]
        elif name == "stop":
            runs.setdefault(doc.get("run_start"), []).append((i, name, doc))
        elif name == "descriptor":
            desc_run[doc["uid"]] = doc.get("run_start")
            runs.setdefault(doc.get("run_start"), []).append((i, name, doc))
        elif name in ("event", "event_page"):
            r = desc_run.get(doc.get("descriptor"))
            (runs.setdefault(r, []) if r is not None else orphans).append((i, name, doc))
        elif name in ("resource", "stream_resource"):
            res_run[doc["uid"]] = doc.get("run_start")
            runs.setdefault(doc.get("run_start"), []).append((i, name, doc))
        elif name == "stream_datum":
            r = desc_run.get(doc.get("descriptor"))
            (runs.setdefault(r, []) if r is not None else orphans).append((i, name, doc))
        elif name in ("datum", "datum_page"):
            r = res_run.get(doc.get("resource"))
            (runs.setdefault(r, []) if r is not None else orphans).append((i, name, doc))
        else:
            orphans.append((i, name, doc))
    return runs, orphans


def c01_documents(obs, validate=True):
    """Well-formed document stream per run, once the engine is idle."""
    tags = []
    docs = obs.docs + (obs.followup["all_docs"] if obs.followup else [])
    docs = obs.docs
    runs, orphans = group_runs(docs)
    if orphans:
        tags.append("document-refers-to-nothing-emitted-earlier")
    seen_uids = set()
    for name, doc in docs:
        if name == "datum":
            uids = [("datum", doc.get("datum_id"))]
        elif name == "datum_page":
            uids = [("datum", u) for u in doc.get("datum_id", [])]
        elif name == "event_page":
            uids = [("event", u) for u in doc.get("uid", [])]
        elif doc.get("uid") is not None:
            uids = [(name, doc["uid"])]
        else:
            uids = []
        for key in uids:
            if key in seen_uids:
                tags.append(f"uid-emitted-twice:{key[0]}")
            seen_uids.add(key)
    if validate:
        from event_model import DocumentNames, schema_validators

        for name, doc in docs:
            try:
                schema_validators[DocumentNames[name]].validate(doc)
            except Exception:  # noqa
                tags.append(f"schema-invalid:{name}")
    for uid, items in runs.items():
        names = [n for _, n, _ in items]
        if uid is None or names[0] != "start":
            tags.append("document-before-or-without-its-start")
            continue
        if names.count("start") != 1:
            tags.append("run-with-more-than-one-start")
        nstop = names.count("stop")
        if obs.state == "idle":
            if nstop == 0:
                tags.append("run-left-without-stop-at-idle")
            elif nstop > 1:
                tags.append("run-with-more-than-one-stop")
            elif names[-1] != "stop":
                tags.append("document-after-run-stop")
        elif nstop > 1:
            tags.append("run-with-more-than-one-stop")
        elif nstop == 1 and names[-1] != "stop":
            tags.append("document-after-run-stop")
        # descriptor before its events, inside the same run
        descs = {}
        for i, n, d in items:
            if n == "descriptor":
                descs[d["uid"]] = i
            elif n in ("event", "event_page", "stream_datum"):
                if d.get("descriptor") not in descs:
                    tags.append(f"{n}-before-its-descriptor")
    return sorted(set(tags))


def transitions(obs):
    tags = []
    for old, new in obs.trans:
        if new not in TABLE.get(old, []):
            tags.append(f"illegal-transition:{old}->{new}")
    return sorted(set(tags))
