"""Command line: run the checks of one property, replay a counterexample, or run one shard.

  python -m vlib.cli check C30 [--tier quick|thorough]
  python -m vlib.cli replay /verif/replays/<file>.json
  python -m vlib.cli shard <harness> <tier> <shard> <seed> <outfile>      (internal)
  python -m vlib.cli native <harness> <tier> <argsfile> <outfile>          (internal)

Exit codes: 0 held / known findings only / inconclusive; 1 VIOLATION (replayed
natively first); 3 harness error (never printed as a violation).
"""
import hashlib
import json
import os
import subprocess
import sys
import tempfile
import time

ROOT = os.path.dirname(os.path.dirname(os.path.abspath(__file__)))
sys.path.insert(0, ROOT)
os.environ.setdefault("BLUESKY_VERIF", "1")

from vlib import harness as H  # noqa: E402

PY = sys.executable
NCPU = int(os.environ.get("VERIF_JOBS", "16"))
LEVELS = json.load(open(os.path.join(ROOT, "levels.json")))  # property -> exploration|other


def _quiet_imports():
    import logging

    logging.disable(logging.CRITICAL)


def cmd_shard(name, tier, shard, seed, outfile):
    _quiet_imports()
    from vlib import symx

    h = H.get(name)
    P = h.params(tier)
    P = dict(P, shard=int(shard), nshards=P["shards"], tier=tier)
    symx.setup()
    if h.float_model:
        symx.set_float_model(h.float_model)
    if h.opaque_text:
        symx.opaque_number_text()
    fn = h.make(P)
    res = symx.explore(fn, budget_s=P["budget_s"], per_path_s=P["per_path_s"], seed=int(seed))
    res["P"] = {k: v for k, v in P.items() if isinstance(v, (int, float, str, bool, list, tuple, type(None)))}
    with open(outfile, "w") as f:
        json.dump(res, f)


def cmd_native(name, tier, argsfile, outfile):
    _quiet_imports()
    from vlib import symx

    spec = json.load(open(argsfile))
    h = H.get(name)
    P = spec.get("P") or dict(h.params(tier), shard=0, nshards=1, tier=tier)
    fn = h.make(P)
    try:
        v = symx.native(fn, spec["args"])
        out = {"verdict": v}
    except Exception as e:  # noqa
        import traceback

        out = {"verdict": "HARNESS-EXC", "exc": repr(e), "tb": traceback.format_exc()[-1500:]}
    with open(outfile, "w") as f:
        json.dump(out, f)


def run_native(name, tier, args, P=None, timeout=300):
    with tempfile.TemporaryDirectory(prefix="vx") as td:
        a, o = os.path.join(td, "a.json"), os.path.join(td, "o.json")
        json.dump({"args": args, "P": P}, open(a, "w"))
        try:
            subprocess.run(
                [PY, "-m", "vlib.cli", "native", name, tier, a, o],
                cwd=ROOT,
                timeout=timeout,
                stdout=subprocess.DEVNULL,
                stderr=subprocess.DEVNULL,
            )
            return json.load(open(o))
        except Exception as e:  # noqa
            return {"verdict": "HARNESS-EXC", "exc": repr(e)}


def load_known():
    p = os.path.join(ROOT, "KNOWN_FINDINGS.json")
    if not os.path.exists(p):
        return []
    return json.load(open(p))["findings"]


def run_shards(jobs):
    """jobs: list of (harness, tier, shard, seed, wall_limit). Returns dict (name, shard) -> result|error."""
    out = {}
    pending = list(jobs)
    running = []
    td = tempfile.mkdtemp(prefix="vxs")
    while pending or running:
        while pending and len(running) < NCPU:
            name, tier, shard, seed, limit = pending.pop(0)
            of = os.path.join(td, f"{name}.{shard}.json")
            lf = open(os.path.join(td, f"{name}.{shard}.log"), "w")
            p = subprocess.Popen(
                [PY, "-m", "vlib.cli", "shard", name, tier, str(shard), str(seed), of],
                cwd=ROOT,
                stdout=lf,
                stderr=subprocess.STDOUT,
            )
            running.append((p, name, shard, of, lf, time.time() + limit))
        time.sleep(0.05)
        still = []
        for p, name, shard, of, lf, deadline in running:
            rc = p.poll()
            if rc is None:
                if time.time() > deadline:
                    p.kill()
                    p.wait()
                    out[(name, shard)] = {"error": "shard wall limit exceeded"}
                    lf.close()
                else:
                    still.append((p, name, shard, of, lf, deadline))
                continue
            lf.close()
            try:
                out[(name, shard)] = json.load(open(of))
            except Exception:
                log = open(lf.name).read()[-2000:]
                out[(name, shard)] = {"error": f"shard exited rc={rc} without result", "log": log}
        running = still
    import shutil

    shutil.rmtree(td, ignore_errors=True)
    return out


def cmd_check(prop, tier):
    t0 = time.time()
    seed = int(os.environ.get("VERIF_SEED", "0") or 0)
    hs = H.load_for(prop)
    if not hs:
        print(f"HARNESS-ERROR: no harness registered for {prop}")
        return 3
    known = [k for k in load_known() if k["property"] == prop]
    open_known = {(k["harness"], k["tag"]): k for k in known if k.get("status", "open") == "open"}
    jobs = []
    for h in hs.values():
        P = h.params(tier)
        for s in range(P["shards"]):
            jobs.append((h.name, tier, s, seed, P["budget_s"] * 1.5 + P["per_path_s"] + 90))
    results = run_shards(jobs)

    rc = 0
    soft_goal_errors = []  # a goal that is never reached is a harness error -- unless a replayed violation explains it
    lines = []
    per_h = []
    total_eval = total_distinct = 0
    violations = 0
    all_exh = True
    samples = []
    known_seen = []
    for h in hs.values():
        P = h.params(tier)
        agg = dict(iterations=0, completed=0, ignored=0, unknown=0, held=0, capped=0, cpu_s=0.0, solver_s=0.0, solver_queries=0)
        goals, findings, errors, exh, hsamples = set(), {}, [], True, []
        for s in range(P["shards"]):
            r = results[(h.name, s)]
            if "error" in r:
                errors.append({"shard": s, "exc": r["error"], "log": r.get("log", "")})
                exh = False
                continue
            for k in agg:
                agg[k] += r.get(k, 0)
            goals |= set(r["goals"])
            exh = exh and r["exhausted"] and r["unknown"] == 0
            for t, f in r["findings"].items():
                if t not in findings:
                    findings[t] = dict(f, P=r["P"])
                else:
                    findings[t]["count"] += f["count"]
            errors += [dict(e, shard=s) for e in r["errors"]]
            hsamples += r["samples"][:2]
        # --- harness errors
        if errors:
            rc = max(rc, 3)
            for e in errors[:3]:
                lines.append(f"HARNESS-ERROR: {h.name}: {e.get('exc')} args={json.dumps(e.get('args'))[:300]}")
                if e.get("stack") or e.get("log"):
                    lines.append("   " + (e.get("stack") or e.get("log")).replace("\n", "\n   ")[-1200:])
        missing = [g for g in h.goals if g not in goals]
        if missing and not errors:
            if exh:
                soft_goal_errors.append(h.name)
                lines.append(f"HARNESS-ERROR: {h.name}: coverage goals never reached (vacuous?): {missing}")
            else:
                lines.append(f"INCONCLUSIVE: {h.name}: goals not reached within budget: {missing}")
        # --- findings
        hviol = []
        for tag, f in sorted(findings.items()):
            if (h.name, tag) in open_known:
                continue
            rep = run_native(h.name, tier, f["args"], f["P"])
            v = rep.get("verdict", "")
            from vlib.symx import split_tags

            if tag in split_tags(v):
                sha = hashlib.sha256(json.dumps([h.name, tag, f["args"]], sort_keys=True).encode()).hexdigest()[:10]
                path = os.path.join(ROOT, "replays", f"{prop}-{h.name}-{sha}.json")
                os.makedirs(os.path.dirname(path), exist_ok=True)
                json.dump(
                    {"property": prop, "harness": h.name, "tier": tier, "tag": tag, "args": f["args"], "P": f["P"]},
                    open(path, "w"),
                    indent=1,
                )
                lines.append(f"VIOLATION property={prop} replay={path}")
                lines.append(f"   harness={h.name} tag={tag} args={json.dumps(f['args'])[:400]}")
                hviol.append({"tag": tag, "args": f["args"], "replay": path})
                rc = max(rc, 1) if rc != 3 else rc
                violations += 1
            else:
                rc = 3
                lines.append(
                    f"HARNESS-ERROR: {h.name}: counterexample for tag {tag} did not reproduce natively "
                    f"(native verdict {v!r} {rep.get('exc','')}) args={json.dumps(f['args'])[:300]}"
                )
        # --- known findings: replay witness
        for (hn, tag), k in open_known.items():
            if hn != h.name:
                continue
            rep = run_native(h.name, tier, k["witness"], k.get("P"))
            from vlib.symx import split_tags

            still = tag in split_tags(rep.get("verdict", ""))
            if still or tag in findings:
                ln = f"KNOWN-FINDING: property={prop} {k['description']}"
                if not any(x.startswith(ln) for x in lines):
                    lines.append(ln + f" [first seen as harness={hn} tag={tag}]")
                known_seen.append({"harness": hn, "tag": tag, "witness_reproduces": still, "paths_with_tag": findings.get(tag, {}).get("count", 0)})
            else:
                lines.append(f"NOTE: known finding {hn}/{tag} no longer reproduces (fixed?)")
        if not exh:
            all_exh = False
            lines.append(
                f"INCONCLUSIVE: {h.name} bound not exhausted ({agg['completed']} paths explored, {agg['unknown']} unknown)"
            )
        total_eval += agg["completed"]
        total_distinct += agg["completed"]
        samples += hsamples[:3]
        per_h.append(
            dict(
                harness=h.name,
                mode=h.mode,
                float_model=h.float_model or "n/a",
                symbolic=h.symbolic,
                out_of_bound=h.out_of_bound,
                stubs=([h.stubs] if isinstance(h.stubs, str) else list(h.stubs or [])),
                params={k: v for k, v in P.items() if isinstance(v, (int, float, str, bool, list))},
                functions_encoded=H.source_hashes(h),
                paths_completed=agg["completed"],
                paths_held=agg["held"],
                paths_precondition_rejected=agg["ignored"],
                paths_unknown=agg["unknown"],
                paths_real_capped=agg["capped"],
                exhaustive=exh,
                solver_queries=agg["solver_queries"],
                solver_s=round(agg["solver_s"], 2),
                cpu_s=round(agg["cpu_s"], 2),
                goals_required=h.goals,
                goals_hit=sorted(goals),
                finding_tags={t: f["count"] for t, f in findings.items()},
                violations=hviol,
            )
        )
    if soft_goal_errors and rc == 0:
        rc = 3
    wall = time.time() - t0
    level = LEVELS.get(prop, "exploration")
    ev = {
        "property_id": prop,
        "tier": tier,
        "seed": seed,
        "level": level,
        "coverage": {
            "evaluations": total_eval,
            "distinct_nontrivial": total_distinct,
            "rule": "one evaluation = one solver-decided path of the harness through the real code (a shared search tree "
            "guarantees paths are pairwise distinct); non-trivial = the path satisfied the harness preconditions and reached "
            "the oracle (precondition-rejected and solver-unknown paths are counted separately and excluded)",
            "samples": samples[:8] or [{"note": "no completed path"}],
            "exhaustive": all_exh,
            "explanation": "Symbolic execution of the real bluesky functions listed under harnesses[].functions_encoded with "
            "CrossHair's kernel and z3; the verdict per harness is 'no argument values inside the stated bounds violate the "
            "oracle' when exhaustive is true (path tree closed, zero unknown paths), otherwise only the explored paths are covered. "
            f"Total solver queries {sum(x['solver_queries'] for x in per_h)}, solver time {round(sum(x['solver_s'] for x in per_h),1)} s.",
            "harnesses": per_h,
            "known_findings_seen": known_seen,
        },
        "assumptions": sorted({s for x in per_h for s in x["stubs"]})
        + ["CrossHair's model of CPython and its z3 encoding", "bounds listed per harness under 'symbolic'/'params'"],
        "wall_s": round(wall, 2),
        "violations": violations,
    }
    os.makedirs(os.path.join(ROOT, "evidence"), exist_ok=True)
    with open(os.path.join(ROOT, "evidence", f"{prop}.json"), "w") as f:
        json.dump(ev, f, indent=1)
    for ln in lines:
        print(ln)
    print(
        f"{prop} tier={tier}: {total_eval} paths, exhaustive={all_exh}, violations={violations}, "
        f"known={len(known_seen)}, wall={wall:.1f}s rc={rc}"
    )
    return rc


def cmd_replay(path):
    spec = json.load(open(path))
    rep = run_native(spec["harness"], spec.get("tier", "quick"), spec["args"], spec.get("P"))
    from vlib.symx import split_tags

    v = rep.get("verdict", "")
    print(f"replay {spec['harness']} args={json.dumps(spec['args'])[:400]}\n  verdict: {v!r} {rep.get('exc','')}")
    if spec["tag"] in split_tags(v):
        print(f"VIOLATION property={spec['property']} replay={path}")
        return 1
    if v == "HARNESS-EXC":
        print(rep.get("tb", ""))
        return 3
    return 0


def main(argv):
    if argv[0] == "shard":
        cmd_shard(*argv[1:6])
        return 0
    if argv[0] == "native":
        cmd_native(*argv[1:5])
        return 0
    if argv[0] == "replay":
        return cmd_replay(argv[1])
    if argv[0] == "check":
        tier = os.environ.get("VERIF_TIER", "quick")
        if "--tier" in argv:
            tier = argv[argv.index("--tier") + 1]
        return cmd_check(argv[1], tier)
    print(__doc__)
    return 2


if __name__ == "__main__":
    sys.exit(main(sys.argv[1:]))
