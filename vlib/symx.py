"""symx -- path-exhaustive symbolic execution driver on CrossHair's kernel.

A *harness* is a plain function ``h(sym args...) -> str``: the empty string
means "property held on this path", anything else is a ';'-joined list of
finding tags.  ``explore`` runs it on CrossHair's symbolic values, one solver
decided path per iteration on a shared search tree, until the tree is
exhausted (``exhausted=True``: the solver showed that no argument values
inside the harness's ``assume``d bounds remain unexplored) or the budget is
spent.  The same function runs natively (``native``) for replay.

This is not the ``crosshair check`` CLI: no contracts, no short-circuiting,
no symbolic clock (see DESIGN.md section 2).
"""
import os
import builtins
import contextlib
import inspect
import random
import sys
import time
import traceback
from time import process_time

_MODE = {"sym": False}
_GOALS = set()


class HarnessError(Exception):
    """Raised by harness code when the harness itself (not bluesky) is broken."""


class Reject(Exception):
    """Native-mode counterpart of IgnoreAttempt (precondition failed)."""


def in_sym():
    return _MODE["sym"]


def goal(name):
    """Record that a coverage goal was reached on this path (vacuity guard)."""
    _GOALS.add(name)


def assume(cond):
    """Precondition: paths violating it are ignored (and steered away from)."""
    if _MODE["sym"]:
        from crosshair.core import IgnoreAttempt
        from crosshair.statespace import prefer_true
        from crosshair.tracers import NoTracing

        if cond is True:
            return
        with NoTracing():  # prefer_true must run untraced (else the solver bookkeeping itself is interpreted)
            ok = prefer_true(cond)
        if not ok:
            raise IgnoreAttempt("pre")
    else:
        if not cond:
            raise Reject("precondition")


def only_shard(key, P):
    """Keep this path only if the (concrete) key belongs to this shard."""
    if int(key) % P["nshards"] != P["shard"]:
        if _MODE["sym"]:
            from crosshair.core import IgnoreAttempt

            raise IgnoreAttempt("shard")
        # native replay: shards are a partition of one space, any shard may replay any point


def is_symbolic(x):
    """True for CrossHair symbolic values (``type(x)`` lies under tracing, so ask untraced)."""
    if not _MODE["sym"]:
        return False
    from crosshair.core import CrossHairValue
    from crosshair.tracers import NoTracing

    with NoTracing():
        return isinstance(x, CrossHairValue)


def concretize(x):
    """Fork a symbolic value to one concrete value per path (other values on other paths)."""
    if _MODE["sym"]:
        from crosshair.core import realize

        return realize(x)
    return x


def fork_int(x, lo, hi):
    """Concrete int in [lo, hi] determined by x, one solver-decided branch per value.

    Total: x == v for v in [lo, hi) maps to v, every other integer maps to hi -- so no precondition (and no
    rejected leaf in the path tree) is needed and native replay computes the same value.
    """
    for v in range(lo, hi):
        if x == v:
            return v
    return hi


def fork_range(x, lo, hi):
    """Like fork_int but with O(log n) solver-decided comparisons (for wide ranges such as a loop-step index).

    Total: x <= lo maps to lo, x >= hi maps to hi.
    """
    if x <= lo:
        return lo
    if x >= hi:
        return hi
    a, b = lo + 1, hi - 1
    while a < b:
        mid = (a + b) // 2
        if x <= mid:
            b = mid
        else:
            a = mid + 1
    return a


def fork_bool(b):
    return True if b else False


def deep_concretize(x):
    if _MODE["sym"]:
        from crosshair.core import deep_realize

        return deep_realize(x)
    return x


@contextlib.contextmanager
def notrace():
    """Run the body at native speed (symbolic values must not flow into it)."""
    if _MODE["sym"]:
        from crosshair.tracers import NoTracing

        with NoTracing():
            yield
    else:
        yield


@contextlib.contextmanager
def traced():
    if _MODE["sym"]:
        from crosshair.tracers import ResumedTracing

        with ResumedTracing():
            yield
    else:
        yield


class Real(float):
    """Annotation: a finite real-valued argument (z3 Real, no NaN/inf/rounding)."""


_SETUP_DONE = [False]
SOLVER = {"s": 0.0, "n": 0}


def setup():
    """One-time CrossHair environment fixes (see DESIGN 3.1 / 6b)."""
    if _SETUP_DONE[0]:
        return
    _SETUP_DONE[0] = True
    import crosshair.core_and_libs  # noqa: F401  registers library patches
    import z3
    from crosshair import core
    from crosshair.core import register_type
    from crosshair.libimpl import builtinslib
    from crosshair.tracers import NoTracing

    # (1) isinstance on data-member Protocols (bluesky.protocols) raises inside CrossHair's patch
    _orig = builtinslib._isinstance

    def _isinstance(obj, types):
        try:
            return _orig(obj, types)
        except TypeError:
            with NoTracing():
                return isinstance(obj, types)

    core._PATCH_REGISTRATIONS[builtins.isinstance] = _isinstance

    # (1b) CrossHair runs a full gc.collect() on every weakref dereference made by traced code "to make weak
    # references deterministic".  Dispatcher/CallbackRegistry and WeakKeyDictionary dereference weakrefs constantly
    # (measured: 55% of a shard's CPU).  Harness callables and devices are strongly held for the whole path, so
    # the outcome of a dereference does not depend on collection timing: dereference directly.
    if os.environ.get("VERIF_WEAKREF_GC", "0") != "1":
        import weakref

        def _ref_call(r):
            if not isinstance(r, weakref.ref):
                raise TypeError
            with NoTracing():
                return r()

        core._PATCH_REGISTRATIONS[weakref.ref.__call__] = _ref_call

    # (2) Real: always a real-based symbolic float
    register_type(Real, lambda creator: builtinslib.RealBasedSymbolicFloat(creator.varname, float))

    # (3) solver accounting
    _check = z3.Solver.check

    def _timed(self, *a):
        t = time.perf_counter()
        try:
            return _check(self, *a)
        finally:
            SOLVER["s"] += time.perf_counter() - t
            SOLVER["n"] += 1

    z3.Solver.check = _timed


def opaque_number_text():
    """Render symbolic ints/floats as the constant text '<sym>' instead of realising them.

    CrossHair realises a symbolic number whenever it is formatted (f-string, format, %, repr), which turns a single
    path into an unbounded enumeration of values.  With this option the text is a placeholder; the harnesses that use
    it state the assumption that the encoded functions use number text only in messages (never parse or branch on it).
    """
    from crosshair.libimpl import builtinslib as bl

    def _fmt(self, fmt=""):
        return "<sym>"

    def _repr(self):
        return "<sym>"

    bl.SymbolicNumberAble.__format__ = _fmt
    from crosshair import core
    from crosshair.tracers import NoTracing

    _orig_format = core._PATCH_REGISTRATIONS[builtins.format]

    def _has_sym(o, depth=0):
        if isinstance(o, bl.SymbolicNumberAble):
            return True
        if depth > 3:
            return False
        import collections.abc as cabc

        if isinstance(o, cabc.Mapping):
            return any(_has_sym(v, depth + 1) for v in o.values())
        if isinstance(o, (list, tuple, cabc.Sequence)) and not isinstance(o, (str, bytes)):
            return any(_has_sym(v, depth + 1) for v in o)
        return False

    def _format(obj, format_spec=""):
        with NoTracing():
            if isinstance(obj, bl.SymbolicNumberAble):
                return "<sym>"
            if not isinstance(obj, (str, bytes, int, float)) and _has_sym(obj):
                return "<container with symbolic numbers>"
        return _orig_format(obj, format_spec)

    core._PATCH_REGISTRATIONS[builtins.format] = _format
    for cls in (bl.SymbolicInt, bl.SymbolicFloat, bl.PreciseIeeeSymbolicFloat, bl.RealBasedSymbolicFloat):
        cls.__repr__ = _repr
        cls.__str__ = _repr


def set_float_model(model):
    """'real' (RealBased), 'ieee' (PreciseIeee) or 'default' (CrossHair explores both)."""
    from crosshair.libimpl import builtinslib

    if model == "real":
        builtinslib._PYTYPE_TO_WRAPPER_TYPE[float] = ((builtinslib.RealBasedSymbolicFloat, 1.0),)
    elif model == "ieee":
        builtinslib._PYTYPE_TO_WRAPPER_TYPE[float] = ((builtinslib.PreciseIeeeSymbolicFloat, 1.0),)


def _jsonable(x, depth=0):
    if depth > 6:
        return repr(x)
    if isinstance(x, (str, int, bool)) or x is None:
        return x
    if isinstance(x, float):
        if x != x or x in (float("inf"), float("-inf")):
            return {"__float__": repr(x)}
        return float(x)
    if isinstance(x, bytes):
        return {"__bytes__": list(x)}
    if isinstance(x, (list, tuple)):
        return [_jsonable(v, depth + 1) for v in x]
    if isinstance(x, dict):
        return {"__dict__": [[_jsonable(k, depth + 1), _jsonable(v, depth + 1)] for k, v in x.items()]}
    return {"__repr__": repr(x)}


def from_jsonable(x):
    if isinstance(x, list):
        return [from_jsonable(v) for v in x]
    if isinstance(x, dict):
        if "__float__" in x:
            return float(x["__float__"])
        if "__bytes__" in x:
            return bytes(x["__bytes__"])
        if "__dict__" in x:
            return {_hashable(from_jsonable(k)): from_jsonable(v) for k, v in x["__dict__"]}
        if "__repr__" in x:
            return x["__repr__"]
    return x


def _hashable(k):
    return tuple(k) if isinstance(k, list) else k


def split_tags(verdict):
    if not verdict:
        return []
    return [t for t in str(verdict).split(";") if t]


def explore(fn, budget_s=60.0, per_path_s=20.0, max_iter=10**7, seed=0, max_samples=6, stop_on_tags=None):
    """Explore ``fn`` symbolically.  Returns a dict of statistics and findings."""
    setup()
    from crosshair.condition_parser import condition_parser
    from crosshair.core import (
        CopyMode,
        ExceptionFilter,
        IgnoreAttempt,
        NotDeterministic,
        Patched,
        UnexploredPath,
        deep_realize,
        deepcopyext,
        gen_args,
    )
    from crosshair.options import AnalysisKind
    from crosshair.statespace import CallAnalysis, RootNode, StateSpace, StateSpaceContext, VerificationStatus
    from crosshair.tracers import COMPOSITE_TRACER, NoTracing, ResumedTracing

    sig = inspect.signature(fn)
    root = RootNode()
    if seed:
        root._random = random.Random(seed)
    start = process_time()
    wall0 = time.perf_counter()
    s0, n0 = SOLVER["s"], SOLVER["n"]
    stats = dict(iterations=0, completed=0, ignored=0, unknown=0, held=0, capped=0)
    findings = {}  # tag -> {"args":..., "count": n}
    errors = []  # harness exceptions
    samples = []
    exhausted = False
    _GOALS.clear()
    _MODE["sym"] = True
    try:
        for _i in range(max_iter):
            t0 = process_time()
            if t0 > start + budget_s:
                break
            stats["iterations"] += 1
            space = StateSpace(
                execution_deadline=t0 + per_path_s, model_check_timeout=per_path_s / 2, search_root=root
            )
            with condition_parser([AnalysisKind.PEP316]), Patched(), COMPOSITE_TRACER, NoTracing(), StateSpaceContext(
                space
            ):
                try:
                    pre = gen_args(sig)
                    args = deepcopyext(pre, CopyMode.REGULAR, {})
                    verdict = None
                    with ExceptionFilter() as ef, ResumedTracing():
                        verdict = fn(*args.args, **args.kwargs)
                    if ef.user_exc:
                        exc, stack = ef.user_exc
                        if isinstance(exc, NotDeterministic):
                            raise NotDeterministic
                        with ResumedTracing():
                            space.detach_path()
                            cargs = {k: _jsonable(v) for k, v in deep_realize(pre).arguments.items()}
                        if len(errors) < 5:
                            errors.append(
                                {"args": cargs, "exc": repr(exc), "stack": "".join(traceback.format_list(stack)[-6:])}
                            )
                        stats["completed"] += 1
                        status = VerificationStatus.CONFIRMED
                    elif ef.ignore:
                        raise IgnoreAttempt
                    else:
                        with ResumedTracing():
                            space.detach_path()
                            verdict = deep_realize(verdict)
                            tags = split_tags(verdict)
                            new = [t for t in tags if t not in findings]
                            cargs = None
                            if new or len(samples) < max_samples:
                                cargs = {k: _jsonable(v) for k, v in deep_realize(pre).arguments.items()}
                        for t in tags:
                            if t in findings:
                                findings[t]["count"] += 1
                            else:
                                findings[t] = {"args": cargs, "count": 1}
                        if not tags:
                            stats["held"] += 1
                        if len(samples) < max_samples and cargs is not None:
                            samples.append({"args": cargs, "verdict": verdict or "held"})
                        stats["completed"] += 1
                        status = VerificationStatus.CONFIRMED
                        if space.status_cap is not None:
                            stats["capped"] += 1
                except IgnoreAttempt:
                    stats["ignored"] += 1
                    status = None
                except UnexploredPath:
                    stats["unknown"] += 1
                    status = VerificationStatus.UNKNOWN
                _a, exhausted = space.bubble_status(CallAnalysis(status))
            if exhausted:
                break
            if stop_on_tags and any(t in findings for t in stop_on_tags):
                break
    finally:
        _MODE["sym"] = False
    stats.update(
        exhausted=bool(exhausted),
        cpu_s=round(process_time() - start, 3),
        wall_s=round(time.perf_counter() - wall0, 3),
        solver_s=round(SOLVER["s"] - s0, 3),
        solver_queries=SOLVER["n"] - n0,
        goals=sorted(_GOALS),
        findings=findings,
        errors=errors,
        samples=samples,
    )
    return stats


def native(fn, args):
    """Run the harness natively on concrete arguments. Returns verdict string or 'REJECTED'."""
    _MODE["sym"] = False
    _GOALS.clear()
    sig = inspect.signature(fn)
    kw = {}
    for name in sig.parameters:
        if name not in args:
            raise HarnessError(f"replay: missing argument {name}")
        kw[name] = from_jsonable(args[name])
    try:
        return fn(**kw) or ""
    except Reject:
        return "REJECTED"
