"""Factory for RE-lab sweep harnesses (schedule mode, DESIGN 2/E1).

The symbolic variables -- plan index, request step(s) and kind(s), post-pause decision, failing device call -- are
forked by the solver into concrete values (one path each); the case then runs natively against the real RunEngine
in the lab and the oracle examines the observation.
"""
from vlib import corpus, sweep
from vlib.symx import fork_int, fork_range, goal, notrace, only_shard

KINDS = ["pause", "defer", "abort", "stop", "halt", "suspend"]
DECISIONS = ["resume", "abort", "stop", "halt"]

_T_CACHE = {}


def plan_T(name, **kw):
    key = (name, repr(sorted(kw.items())))
    if key not in _T_CACHE:
        T, obs = sweep.dry_run_steps(corpus.CORPUS[name], **kw)
        _T_CACHE[key] = (T, len(obs.ledger), len(obs.msgs))
    return _T_CACHE[key]


def context(obs):
    """Where did the first interruption take effect?  '<kind>-after-<last command executed>' (or '...-after-plan-end')."""
    from vlib.oracles import interruptions

    first = None
    for r in obs.reqs:
        if r["kind"] != "update":
            first = r
            break
    if first is None:
        return "none"
    ints = interruptions(obs)
    if ints and first["kind"] in ("pause", "defer", "suspend"):
        n = ints[0][1]
    else:
        n = first.get("nmsgs", 0)
    pe = obs.plan_end
    if pe is not None and pe[0] == "return" and pe[3] <= n and (not ints or ints[0][2] >= pe[2]):
        return f"{first['kind']}-after-plan-end"
    last = obs.msgs[n - 1].command if 0 < n <= len(obs.msgs) else "start"
    during = bool(ints and first["kind"] in ("pause", "defer", "suspend") and ints[0][4])
    return f"{first['kind']}-{'during' if during else 'after'}-{last}"


def make_sweep(P, oracle, *, plans, kinds=KINDS, decisions=DECISIONS, two=False, faults=False, re_kwargs=None, extra=None, goals_fn=None, ctx=False, updates=0, signal="sig", suspend_kw=None, run_kw=None, kinds2=None):
    """Returns the harness function.  oracle(obs, case) -> list of tags."""
    Ts = [plan_T(p, re_kwargs=re_kwargs) for p in plans]

    def h(plan: int, k1: int, r1: int, d: int, k2: int, r2: int, fk: int, fj: int) -> str:
        pi = fork_int(plan, 0, len(plans) - 1)
        ri = fork_int(r1, 0, len(kinds) - 1)
        T, ncalls, nmsgs = Ts[pi]
        case = dict(plan=plans[pi], T=T)
        reqs = []
        k = fork_range(k1, 0, T + P.get("past_end", 3))
        only_shard((pi * len(kinds) + ri) * 131 + k, P)
        reqs.append(dict(step=k, kind=kinds[ri]))
        case["k1"], case["r1"] = k, kinds[ri]
        di = fork_int(d, 0, len(decisions) - 1)
        case["decision"] = decisions[di]
        if two:
            # second request: within `window` steps after the first (covers "while pausing/suspending/paused-then-resumed")
            kk = fork_int(k2, 0, P.get("window", 8))
            K2 = kinds2 or kinds
            r2i = fork_int(r2, 0, len(K2))
            if r2i < len(K2):
                reqs.append(dict(step=k + kk, kind=K2[r2i]))
                case["k2"], case["r2"] = k + kk, K2[r2i]
        fail_call = fail_status = None
        if faults:
            f = fork_int(fk, 0, 3 if faults == "attr" else 2)  # 0 none, 1 call raises, 2 status fails, 3 call raises an AttributeError subclass
            if f:
                j = fork_range(fj, 0, ncalls - 1)
                if f in (1, 3):
                    fail_call = j
                else:
                    fail_status = j
                case["fault"] = ("call" if f == 1 else ("attr" if f == 3 else "status"), j)
        upd = []
        if updates:
            # signal updates at solver-chosen loop steps (the same spare symbolic integers as the fault position, which is unused here)
            for ui, sym in enumerate([fk, fj][:updates]):
                us = fork_range(sym, 0, T + 2)
                upd.append(dict(step=us, signal=signal, value=100 + ui))
            case["updates"] = [u["step"] for u in upd]
        if suspend_kw:
            for rq in reqs:
                if rq["kind"] == "suspend":
                    rq.update(suspend_kw())
            case["prepost"] = True
        with notrace():
            obs = sweep.run_case(corpus.CORPUS[plans[pi]], reqs, decisions[di], fail_call=fail_call, fail_status=fail_status, fail_attr=bool(case.get("fault") and case["fault"][0] == "attr"),
                                 re_kwargs=re_kwargs, updates=upd, **(run_kw or {}), **(extra or {}))
            case["ctx"] = context(obs)
            tags = oracle(obs, case)
            if goals_fn:
                goals_fn(obs, case)
            std_goals(obs)
            if ctx:
                tags = [t[1:] if t.startswith("!") else f"{t}@{case['ctx']}" for t in tags]
            else:
                tags = [t[1:] if t.startswith("!") else t for t in tags]
            return ";".join(sorted(set(tags)))

    return h


def std_goals(obs):
    if any(c["state"] == "paused" for c in obs.calls):
        goal("paused")
    if any(c["api"] == "resume" and c["outcome"] == "ret" for c in obs.calls):
        goal("resumed")
    if any(m.command == "_start_suspender" for m in obs.msgs):
        goal("suspended")
    if any(c["exc_type"] == "RunEngineInterrupted" for c in obs.calls):
        goal("interrupted")
    if any(c["exc_type"] in ("DeviceError", "FailedStatus") for c in obs.calls):
        goal("device-failure-surfaced")
    if any(r.get("nmsgs", 0) >= len(obs.msgs) for r in obs.reqs if r["kind"] != "update"):
        goal("request-after-last-message")
