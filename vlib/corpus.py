"""Plan corpus for the RE-lab harnesses: name -> factory(lab) -> (plan, devices)."""
from vlib.relab import AsyncStopMotor, Det, Flyer, Motor, Signal


def _std(lab):
    m1, m2 = Motor("m1", lab), Motor("m2", lab)
    det = Det("det", lab, [m1, m2])
    sig = Signal("sig", lab)
    fly = Flyer("fly", lab)
    if getattr(lab, "poke_on_stop", False):
        # a document consumer that reacts to the RunStop by touching the monitored signal
        lab.RE.subscribe(lambda name, doc: sig.put(999), "stop")
    return dict(m1=m1, m2=m2, det=det, sig=sig, fly=fly)


def count2(lab):
    import bluesky.plans as bp

    d = _std(lab)
    return bp.count([d["det"]], 2), d


def scan3(lab):
    import bluesky.plans as bp

    d = _std(lab)
    return bp.scan([d["det"]], d["m1"], 0, 1, 3), d


def scan2(lab):
    import bluesky.plans as bp

    d = _std(lab)
    return bp.scan([d["det"]], d["m1"], 0, 1, 2), d


def rel_scan2(lab):
    import bluesky.plans as bp

    d = _std(lab)
    d["m1"].pos = 5.0
    return bp.rel_scan([d["det"]], d["m1"], -1, 1, 2), d


def list_scan2(lab):
    import bluesky.plans as bp

    d = _std(lab)
    return bp.list_scan([d["det"]], d["m1"], [1.0, 3.0], d["m2"], [2.0, 4.0]), d


def grid2x2(lab):
    import bluesky.plans as bp

    d = _std(lab)
    return bp.grid_scan([d["det"]], d["m1"], 0, 1, 2, d["m2"], 0, 1, 2, snake_axes=True), d


def adaptive(lab):
    import bluesky.plans as bp

    d = _std(lab)
    return bp.adaptive_scan([d["det"]], "det", d["m1"], 0, 1, 0.2, 0.5, 1.0, True), d


def tune(lab):
    import bluesky.plans as bp

    d = _std(lab)
    return bp.tune_centroid([d["det"]], "det", d["m1"], -1, 1, 0.5, 3), d


def fly1(lab):
    import bluesky.plans as bp

    d = _std(lab)
    return bp.fly([d["fly"]]), d


def bare(lab):
    """open/checkpoint/set/wait/create/read/save x2, close -- no wrappers at all."""
    from bluesky.utils import Msg

    d = _std(lab)
    m = d["m1"]

    def plan():
        yield Msg("open_run")
        for i in range(2):
            yield Msg("checkpoint")
            yield Msg("set", m, float(i + 1), group="g")
            yield Msg("wait", None, group="g")
            yield Msg("create", name="primary")
            yield Msg("read", m)
            yield Msg("save")
        yield Msg("close_run")
        return "bare-done"

    return plan(), d


def cleanup(lab):
    """A non-resumable section (clear_checkpoint ... checkpoint) inside a run with try/finally cleanup."""
    import bluesky.plan_stubs as bps
    import bluesky.preprocessors as bpp
    from bluesky.utils import Msg

    d = _std(lab)
    m = d["m1"]

    def inner():
        yield Msg("open_run")
        yield Msg("checkpoint")
        yield Msg("null", None, "a")
        yield Msg("clear_checkpoint")
        yield Msg("null", None, "b")
        yield Msg("set", m, 2.0, group="g")
        yield Msg("wait", None, group="g")
        yield Msg("checkpoint")
        yield Msg("null", None, "c")
        yield Msg("close_run")

    def final():
        yield Msg("null", None, "cleanup")
        yield from bps.mv(m, 0.0)

    return bpp.finalize_wrapper(inner(), final()), d


def staged_monitor(lab):
    """stage, monitor, set, trigger_and_read x2, unmonitor, unstage through the standard wrappers."""
    import bluesky.plan_stubs as bps
    import bluesky.preprocessors as bpp

    d = _std(lab)
    det, m, sig = d["det"], d["m1"], d["sig"]

    @bpp.stage_decorator([det, m])
    @bpp.monitor_during_decorator([sig])
    @bpp.run_decorator(md={"purpose": "lab"})
    def plan():
        for i in range(2):
            yield from bps.checkpoint()
            yield from bps.mv(m, float(i))
            yield from bps.trigger_and_read([det, m])
        return "sm-done"

    return plan(), d


def nested_runs(lab):
    """Two runs open at once under different run keys (interleaved), built with set_run_key_wrapper."""
    import bluesky.plan_stubs as bps
    import bluesky.preprocessors as bpp

    d = _std(lab)
    det, m = d["det"], d["m1"]

    def inner(key):
        @bpp.set_run_key_decorator(key)
        @bpp.run_decorator(md={"key": key})
        def one():
            yield from bps.checkpoint()
            yield from bps.trigger_and_read([det], name="primary")
            if key == "outer":
                yield from inner("inner")
            yield from bps.checkpoint()
            yield from bps.trigger_and_read([det], name="primary")
        return (yield from one())

    return inner("outer"), d


def flymon(lab):
    """kickoff/complete/collect plus a monitor inside one run, no wrappers (engine must clean up)."""
    from bluesky.utils import Msg

    d = _std(lab)
    fly, sig, m = d["fly"], d["sig"], d["m1"]

    def plan():
        yield Msg("stage", fly)
        yield Msg("open_run")
        yield Msg("monitor", sig, name="sig_monitor")
        yield Msg("kickoff", fly, group="k")
        yield Msg("wait", None, group="k")
        yield Msg("checkpoint")
        yield Msg("set", m, 1.0, group="s")
        yield Msg("wait", None, group="s")
        yield Msg("complete", fly, group="c")
        yield Msg("wait", None, group="c")
        yield Msg("collect", fly)
        yield Msg("unmonitor", sig)
        yield Msg("close_run")
        yield Msg("unstage", fly)

    return plan(), d


def declared(lab):
    """A pre-declared stream (declare_stream) followed by bundles; no checkpoint right after the declaration."""
    from bluesky.utils import Msg

    d = _std(lab)
    m, det = d["m1"], d["det"]

    def plan():
        yield Msg("open_run")
        yield Msg("checkpoint")
        yield Msg("declare_stream", None, m, det, name="primary")
        yield Msg("null", None, "after-declare")
        for i in range(2):
            yield Msg("checkpoint")
            yield Msg("set", m, float(i + 1), group="g")
            yield Msg("wait", None, group="g")
            yield Msg("create", name="primary")
            yield Msg("read", m)
            yield Msg("read", det)
            yield Msg("save")
        yield Msg("close_run")

    return plan(), d


def double_stage(lab):
    """Stages a device, later tries to stage it again tolerating a failure, and leaves unstaging to the engine."""
    from bluesky.utils import Msg

    d = _std(lab)
    det, m = d["det"], d["m1"]

    def plan():
        yield Msg("stage", det)
        yield Msg("open_run")
        yield Msg("checkpoint")
        try:
            yield Msg("stage", det)
        except Exception:  # noqa
            yield Msg("null", None, "tolerated")
        yield Msg("set", m, 1.0, group="g")
        yield Msg("wait", None, group="g")
        yield Msg("close_run")

    return plan(), d


def failpause(lab):
    """A planned pause inside a non-resumable section, after moving a motor whose stop() is a real coroutine."""
    from bluesky.utils import Msg

    d = _std(lab)
    d["am"] = am = AsyncStopMotor("am", lab)

    def plan():
        yield Msg("open_run")
        yield Msg("checkpoint")
        yield Msg("set", am, 1.0, group="g")
        yield Msg("wait", None, group="g")
        yield Msg("clear_checkpoint")
        yield Msg("null", None, "x")
        yield Msg("pause")
        yield Msg("null", None, "never")
        yield Msg("close_run")

    return plan(), d


def defer_failpause(lab):
    """A deferred planned pause that fires at a checkpoint of a plan made non-resumable earlier."""
    from bluesky.utils import Msg

    d = _std(lab)
    d["am"] = am = AsyncStopMotor("am", lab)

    def plan():
        yield Msg("open_run")
        yield Msg("set", am, 1.0, group="g")
        yield Msg("wait", None, group="g")
        yield Msg("clear_checkpoint")
        yield Msg("pause", defer=True)
        yield Msg("null", None, "x")
        yield Msg("checkpoint")
        yield Msg("null", None, "y")
        yield Msg("close_run")

    return plan(), d


def count_norewind(lab):
    """count with a delay over a detector that declares itself not rewindable (trigger_and_read toggles the engine's flag)."""
    import types

    import bluesky.plans as bp

    d = _std(lab)
    d["det"].rewindable = types.SimpleNamespace(get=lambda: False)
    return bp.count([d["det"]], 3, delay=0.5), d


def norewind_section(lab):
    """Events taken inside a rewindable_wrapper(False) section that is switched back on before the next checkpoint."""
    import bluesky.preprocessors as bpp
    from bluesky.utils import Msg

    d = _std(lab)
    m = d["m1"]

    def point():
        yield Msg("create", name="primary")
        yield Msg("read", m)
        yield Msg("save")

    def section():
        yield from point()
        yield from point()

    def plan():
        yield Msg("open_run")
        yield Msg("checkpoint")
        yield from bpp.rewindable_wrapper(section(), False)
        yield Msg("null", None, "after-section-1")
        yield Msg("null", None, "after-section-2")
        yield Msg("checkpoint")
        yield from point()
        yield Msg("close_run")

    return plan(), d


def configure_mid(lab):
    """A device is re-configured in the middle of a run (new descriptor for its stream), more events follow before the next checkpoint."""
    from bluesky.utils import Msg

    d = _std(lab)
    det, m = d["det"], d["m1"]

    def point(name="primary", *objs):
        yield Msg("create", name=name)
        for o in objs:
            yield Msg("read", o)
        yield Msg("save")

    def plan():
        yield Msg("open_run")
        yield Msg("checkpoint")
        yield from point("primary", det, m)
        yield from point("primary", det, m)
        yield from point("other", det)
        yield Msg("checkpoint")
        yield Msg("configure", det, 7)
        yield from point("primary", det, m)
        yield from point("other", det)
        yield Msg("null", None, "window")
        yield Msg("checkpoint")
        yield from point("primary", det, m)
        yield Msg("close_run")

    return plan(), d


def configure_late(lab):
    """A device is re-configured after events of its stream were saved since the last checkpoint; more events follow before the next one."""
    from bluesky.utils import Msg

    d = _std(lab)
    det, m = d["det"], d["m1"]

    def point(name="primary", *objs):
        yield Msg("create", name=name)
        for o in objs:
            yield Msg("read", o)
        yield Msg("save")

    def plan():
        yield Msg("open_run")
        yield Msg("checkpoint")
        yield from point("primary", det, m)
        yield Msg("configure", det, 7)
        yield from point("primary", det, m)
        yield Msg("null", None, "window")
        yield Msg("configure", det, 8)
        yield from point("primary", det, m)
        yield Msg("checkpoint")
        yield from point("primary", det, m)
        yield Msg("close_run")

    return plan(), d


def sparse(lab):
    """Checkpoints at irregular spacing, some inside a non-rewindable region, and a tail without any checkpoint."""
    from bluesky.utils import Msg

    d = _std(lab)
    m = d["m1"]

    def plan():
        yield Msg("open_run")
        yield Msg("checkpoint")
        yield Msg("null", None, 1)
        yield Msg("checkpoint")
        yield Msg("null", None, 2)
        yield Msg("null", None, 3)
        yield Msg("set", m, 1.0, group="g")
        yield Msg("wait", None, group="g")
        yield Msg("rewindable", None, False)
        yield Msg("null", None, 4)
        yield Msg("checkpoint")
        yield Msg("null", None, 5)
        yield Msg("rewindable", None, True)
        yield Msg("null", None, 6)
        yield Msg("checkpoint")
        yield Msg("null", None, 7)
        yield Msg("null", None, 8)
        yield Msg("close_run")
        yield Msg("null", None, 9)
        return "sparse-done"

    return plan(), d


def cleared_sleep(lab):
    """A non-resumable section (after clear_checkpoint) with messages that take time -- sleep, set + wait -- and no cleanup."""
    from bluesky.utils import Msg

    d = _std(lab)
    m = d["m1"]

    def plan():
        yield Msg("open_run")
        yield Msg("checkpoint")
        yield Msg("clear_checkpoint")
        yield Msg("sleep", None, 0.1)
        yield Msg("set", m, 1.0, group="g")
        yield Msg("wait", None, group="g")
        yield Msg("null", None, "after")
        yield Msg("close_run")

    return plan(), d


def cleared_rewindable(lab):
    """clear_checkpoint followed by rewindable off/on inside the non-resumable section; cleanup via finalize."""
    import bluesky.preprocessors as bpp
    from bluesky.utils import Msg

    d = _std(lab)

    def inner():
        yield Msg("open_run")
        yield Msg("checkpoint")
        yield Msg("clear_checkpoint")
        yield Msg("null", None, "a")
        yield Msg("rewindable", None, False)
        yield Msg("null", None, "b")
        yield Msg("sleep", None, 0.1)
        yield Msg("rewindable", None, True)
        yield Msg("null", None, "c")
        yield Msg("sleep", None, 0.1)
        yield Msg("close_run")

    def final():
        yield Msg("null", None, "cleanup")

    return bpp.finalize_wrapper(inner(), final()), d


def status_stage(lab):
    """A device whose stage() returns a Status, staged with a group and waited for later; plain stage of another device."""
    from bluesky.utils import Msg

    from vlib.relab import StatusStageDet

    d = _std(lab)
    sdet = StatusStageDet("sdet", lab, [d["m1"]])
    d["sdet"] = sdet

    def plan():
        yield Msg("stage", d["det"])
        yield Msg("stage", sdet, group="s")
        yield Msg("open_run")
        yield Msg("checkpoint")
        yield Msg("null", None, "before-wait")
        yield Msg("wait", None, group="s")
        yield Msg("create", name="primary")
        yield Msg("read", d["det"])
        yield Msg("save")
        yield Msg("close_run")
        yield Msg("unstage", sdet, group="u")
        yield Msg("wait", None, group="u")
        yield Msg("unstage", d["det"])

    return plan(), d


def two_runs_cleared(lab):
    """Two consecutive runs; the first contains clear_checkpoint and no later checkpoint; cleanup via finalize."""
    import bluesky.preprocessors as bpp
    from bluesky.utils import Msg

    d = _std(lab)
    m = d["m1"]

    def inner():
        yield Msg("open_run")
        yield Msg("checkpoint")
        yield Msg("clear_checkpoint")
        yield Msg("null", None, "r1")
        yield Msg("close_run")
        yield Msg("null", None, "between")
        yield Msg("open_run")
        yield Msg("null", None, "r2a")
        yield Msg("set", m, 1.0, group="g")
        yield Msg("wait", None, group="g")
        yield Msg("null", None, "r2b")
        yield Msg("close_run")

    def final():
        yield Msg("null", None, "cleanup")
        yield Msg("checkpoint")
        yield Msg("null", None, "cleanup2")

    return bpp.finalize_wrapper(inner(), final()), d


def late_wait(lab):
    """trigger with a group, checkpoint, more messages, and only then the wait on the group."""
    from bluesky.utils import Msg

    d = _std(lab)
    det, m = d["det"], d["m1"]

    def plan():
        yield Msg("open_run")
        yield Msg("checkpoint")
        yield Msg("trigger", det, group="late")
        yield Msg("set", m, 1.0, group="late")
        yield Msg("checkpoint")
        yield Msg("null", None, "a")
        yield Msg("null", None, "b")
        yield Msg("wait", None, group="late")
        yield Msg("checkpoint")
        yield Msg("null", None, "c")
        yield Msg("checkpoint")
        yield Msg("create", name="primary")
        yield Msg("read", det)
        yield Msg("save")
        yield Msg("close_run")

    return plan(), d


def stubbed(lab):
    """A plan run under stub_wrapper (open_run/close_run/stage/unstage dropped); the inner plan records what each yield received."""
    import bluesky.plan_stubs as bps
    import bluesky.preprocessors as bpp
    from bluesky.utils import Msg

    d = _std(lab)
    m, det = d["m1"], d["det"]
    d["inner_log"] = log = []

    def inner():
        for mk in (lambda: Msg("set", m, 1.0, group="g"), lambda: Msg("wait", None, group="g"), lambda: Msg("stage", det), lambda: Msg("open_run"),
                   lambda: Msg("checkpoint"), lambda: Msg("trigger", det, group="t"), lambda: Msg("close_run"), lambda: Msg("wait", None, group="t"),
                   lambda: Msg("unstage", det), lambda: Msg("null", None, "end")):
            msg = mk()
            r = yield msg
            log.append((msg, r))
        return "stubbed-done"

    def outer():
        yield Msg("open_run")
        yield Msg("checkpoint")
        r = yield from bpp.stub_wrapper(inner())
        yield Msg("close_run")
        return r

    return outer(), d


def monitor_mid(lab):
    """monitor ... unmonitor in the middle of a run, then more work, a second run without monitoring."""
    from bluesky.utils import Msg

    d = _std(lab)
    sig, m = d["sig"], d["m1"]

    def plan():
        yield Msg("open_run")
        yield Msg("checkpoint")
        yield Msg("null", None, "before")
        yield Msg("monitor", sig, name="sig_monitor")
        yield Msg("checkpoint")
        yield Msg("set", m, 1.0, group="g")
        yield Msg("wait", None, group="g")
        yield Msg("null", None, "monitored")
        yield Msg("unmonitor", sig)
        yield Msg("checkpoint")
        yield Msg("null", None, "after")
        yield Msg("close_run")
        yield Msg("null", None, "between")
        yield Msg("open_run")
        yield Msg("checkpoint")
        yield Msg("monitor", sig, name="sig_monitor")
        yield Msg("null", None, "second")
        yield Msg("set", m, 2.0, group="g")
        yield Msg("wait", None, group="g")
        yield Msg("close_run")

    return plan(), d


def monitor_meta(lab):
    """A monitor on a non-default event type ('meta'), left for the engine / close_run to remove."""
    from bluesky.utils import Msg

    d = _std(lab)
    sig, m = d["sig"], d["m1"]
    sig.update_type = "meta"

    def plan():
        yield Msg("open_run")
        yield Msg("checkpoint")
        yield Msg("monitor", sig, name="sig_monitor", event_type="meta")
        yield Msg("checkpoint")
        yield Msg("set", m, 1.0, group="g")
        yield Msg("wait", None, group="g")
        yield Msg("null", None, "monitored")
        yield Msg("set", m, 2.0, group="g")
        yield Msg("wait", None, group="g")
        yield Msg("close_run")

    return plan(), d


def interleaved(lab):
    """Two runs with different keys closed in the order they were opened (not nested): open a, open b, close a, close b."""
    from bluesky.utils import Msg

    d = _std(lab)
    det = d["det"]

    def pt(k):
        yield Msg("checkpoint")
        yield Msg("create", name="primary", run=k)
        yield Msg("read", det, run=k)
        yield Msg("save", run=k)

    def plan():
        yield Msg("open_run", run="a", key="a")
        yield from pt("a")
        yield Msg("open_run", run="b", key="b")
        yield from pt("b")
        yield from pt("a")
        yield Msg("close_run", run="a", exit_status="success", reason="")
        yield from pt("b")
        yield Msg("close_run", run="b", exit_status="abort", reason="user says so")

    return plan(), d


def interleaved_sparse(lab):
    """Two interleaved runs with few checkpoints: run b takes points before and after run a is closed, with no checkpoint in between."""
    from bluesky.utils import Msg

    d = _std(lab)
    det = d["det"]

    def pt(k):
        yield Msg("create", name="primary", run=k)
        yield Msg("read", det, run=k)
        yield Msg("save", run=k)

    def plan():
        yield Msg("open_run", run="a", key="a")
        yield Msg("open_run", run="b", key="b")
        yield Msg("checkpoint")
        yield from pt("a")
        yield from pt("b")
        yield Msg("null", None, "w1")
        yield Msg("close_run", run="a")
        yield from pt("b")
        yield Msg("null", None, "w2")
        yield Msg("checkpoint")
        yield from pt("b")
        yield Msg("close_run", run="b")

    return plan(), d


def retry_close(lab):
    """A run whose close_run may fail (a monitor is still active); the plan catches the error and closes the run again as failed."""
    from bluesky.utils import Msg

    d = _std(lab)
    sig, det = d["sig"], d["det"]

    def plan():
        yield Msg("open_run", run="a", key="a")
        yield Msg("open_run", run="b", key="b")
        yield Msg("monitor", sig, name="sig_monitor", run="b")
        yield Msg("checkpoint")
        yield Msg("create", name="primary", run="a")
        yield Msg("read", det, run="a")
        yield Msg("save", run="a")
        try:
            yield Msg("close_run", run="b", exit_status="success", reason="")
        except Exception as e:  # noqa
            yield Msg("null", None, "close failed: " + type(e).__name__)
            yield Msg("close_run", run="b", exit_status="fail", reason="first close failed")
        yield Msg("close_run", run="a", exit_status="success", reason="")

    return plan(), d


def wait_move_on(lab):
    """'wait and move on': polls a group with wait(timeout, error_on_timeout=False) while a slow move completes."""
    from bluesky.utils import Msg

    d = _std(lab)
    d["slow"] = slow = Motor("slow", lab, delay=0.6)

    def plan():
        yield Msg("open_run")
        yield Msg("checkpoint")
        yield Msg("set", slow, 1.0, group="mv")
        done = False
        n = 0
        while not done and n < 8:
            n += 1
            done = yield Msg("wait", None, group="mv", timeout=0.2, error_on_timeout=False)
            yield Msg("null", None, ("poll", n))
        yield Msg("checkpoint")
        yield Msg("null", None, "after")
        yield Msg("close_run")

    return plan(), d


def clearing_prelude(lab):
    """An earlier call that makes itself non-resumable and completes."""
    from bluesky.utils import Msg

    return [Msg("checkpoint"), Msg("clear_checkpoint"), Msg("null", None, "prelude")]


CORPUS = dict(interleaved_sparse=interleaved_sparse, cleared_rewindable=cleared_rewindable, status_stage=status_stage, configure_late=configure_late, cleared_sleep=cleared_sleep, wait_move_on=wait_move_on, retry_close=retry_close, interleaved=interleaved, monitor_meta=monitor_meta, monitor_mid=monitor_mid, stubbed=stubbed, sparse=sparse, two_runs_cleared=two_runs_cleared, late_wait=late_wait, norewind_section=norewind_section, configure_mid=configure_mid, count_norewind=count_norewind, declared=declared, double_stage=double_stage, failpause=failpause, defer_failpause=defer_failpause, count2=count2, scan2=scan2, scan3=scan3, rel_scan2=rel_scan2, list_scan2=list_scan2, grid2x2=grid2x2, adaptive=adaptive, tune=tune,
              fly1=fly1, bare=bare, cleanup=cleanup, staged_monitor=staged_monitor, nested_runs=nested_runs, flymon=flymon)
