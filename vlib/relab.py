"""RE-lab: the real RunEngine on one thread, in virtual time, with instrumented fake devices (DESIGN 3.1).

Nothing here changes bluesky's source: the seams are module attributes of ``bluesky.run_engine``
(``threading``, ``_ensure_event_loop_running``) and constructor arguments (``loop=``, ``during_task=``,
``context_managers=``).  ``Lab.pump`` is the only place where the event loop advances, one iteration at a time;
between two iterations the *hook* may land external requests, complete device statuses or push signal updates --
exactly what foreign threads can do to a running engine (their callbacks run in the next loop iteration).
"""
import asyncio
import contextlib
import io
import threading
import types

STUCK_LIMIT = 4000


class LabStuck(Exception):
    pass


class DeviceError(Exception):
    pass


class DeviceAttrError(DeviceError, AttributeError):
    """A device failure that happens to be an AttributeError (e.g. None.gain after a lost connection)."""


class VClock:
    def __init__(self):
        self.t = 1000.0


class VLoop(asyncio.SelectorEventLoop):
    """Stock asyncio loop whose clock is virtual: when nothing is ready it jumps to the earliest live timer."""

    def __init__(self, clock):
        self._vclock = clock
        super().__init__()

    def time(self):
        return self._vclock.t

    def step(self):
        if not self._ready:
            live = [h._when for h in self._scheduled if not h._cancelled]
            if live:
                self._vclock.t = max(self._vclock.t, min(live))
        self.call_soon(self.stop)
        self.run_forever()

    def idle(self):
        return not self._ready and not any(not h._cancelled for h in self._scheduled)


class Lab:
    def __init__(self, **re_kwargs):
        import bluesky.run_engine as rem

        try:  # RunEngine.__init__ imports these for version metadata; import before anything is patched
            import ophyd  # noqa: F401
        except ImportError:
            pass
        from bluesky.utils import DuringTask

        self.clock = VClock()
        self.loop = loop = VLoop(self.clock)
        self.hook = None
        self.steps = 0
        self.stuck = False
        self.ncalls = 0  # global index of device protocol calls
        self.ledger = []  # (index, device name, operation, args)
        self.fail_call = None  # device call index that raises DeviceError
        self.fail_status = None  # device call index whose returned status fails
        self.fault_at = None
        self.fault_msg = None
        self.fail_as_attribute_error = False
        self.ledger_msg = []  # the message in flight at each device call
        self.status_of_call = {}
        self.inflight = None
        self.pending = []  # statuses not yet finished: (status, finish_at virtual time)
        self.out = io.StringIO()
        lab = self

        class PumpEvent(threading.Event):
            def wait(self, timeout=None):
                n = 0
                while not self.is_set():
                    lab.pump_once()
                    n += 1
                    if n > STUCK_LIMIT:
                        lab.stuck = True
                        raise LabStuck("event never set after %d loop iterations" % n)
                return True

        self.PumpEvent = PumpEvent
        shim = types.SimpleNamespace(
            Event=PumpEvent, RLock=threading.RLock, Lock=threading.Lock, Thread=threading.Thread, current_thread=threading.current_thread
        )

        class During(DuringTask):
            def block(self, ev):
                ev.wait()

        import bluesky.suspenders as bsus

        self._saved_sus = bsus.threading
        bsus.threading = shim  # SuspenderBase.__make_event waits on a threading.Event for a loop callback
        self._bsus = bsus
        self._saved = (rem.threading, rem._ensure_event_loop_running)
        rem.threading = shim
        rem._ensure_event_loop_running = lambda lp: threading.current_thread()
        self._rem = rem
        try:
            with contextlib.redirect_stdout(self.out):
                self.RE = rem.RunEngine({}, loop=loop, during_task=During(), context_managers=[], **re_kwargs)
        except BaseException:
            self.close()
            raise
        # observers
        self.rewinds = []  # number of documents emitted so far at each RunEngine._rewind() call
        _orig_rewind = self.RE._rewind

        def _rewind_spy():
            lab.rewinds.append((len(lab.docs), len(lab.msgs)))
            return _orig_rewind()

        self.RE._rewind = _rewind_spy
        self.inflight = None  # the message whose handler is executing right now (instrumented through the command registry dict)

        def _wrap(coro):
            async def handler(msg):
                lab.inflight = msg
                try:
                    return await coro(msg)
                finally:
                    lab.inflight = None

            return handler

        for _name, _coro in list(self.RE._command_registry.items()):
            self.RE._command_registry[_name] = _wrap(_coro)
        self.docs, self.msgs, self.trans = [], [], []
        self.RE.subscribe(lambda n, d: self.docs.append((n, d)))
        self.RE.msg_hook = lambda m: self.msgs.append(m)
        self.trans_meta = []
        self.RE.state_hook = lambda new, old: (self.trans.append((str(old), str(new))), self.trans_meta.append((len(self.msgs), self.steps, len(self.docs), bool(self.RE._rewindable_flag), self.inflight is not None)))

    # ------------------------------------------------------------------ pumping
    def pump_once(self):
        if self.hook is not None:
            self.hook(self.steps)
        self.steps += 1
        self.loop.step()

    def settle(self, n=50):
        """Run the loop until it is idle (used after a call returned, to flush call_soon leftovers)."""
        for _ in range(n):
            if self.loop.idle():
                return
            self.loop.step()

    # ------------------------------------------------------------------ device support
    def device_call(self, dev, op, *args):
        """Record a protocol call; raise if this is the call chosen to fail. Returns the call index."""
        j = self.ncalls
        self.ncalls += 1
        self.ledger.append((j, dev.name, op, args))
        self.ledger_msg.append(self.inflight)
        if self.fail_call == j:
            self.fault_at = (self.steps, len(self.msgs), len(self.docs))
            self.fault_msg = self.inflight
            cls = DeviceAttrError if self.fail_as_attribute_error else DeviceError
            raise cls(f"{dev.name}.{op} failed (call {j})")
        return j

    def status(self, j, delay=0.0):
        st = FakeStatus()
        self.status_of_call[j] = st
        ok = self.fail_status != j
        exc = None if ok else DeviceError(f"status of call {j} failed")
        if not ok:
            self.fault_at = (self.steps, len(self.msgs), len(self.docs))
            self.fault_msg = self.inflight
        if delay > 0:
            self.loop.call_later(delay, st.finish, ok, exc)
        else:
            self.loop.call_soon(st.finish, ok, exc)
        return st

    # ------------------------------------------------------------------ external requests (what another thread could do)
    def request(self, kind, **kw):
        """Land one external request.  Returns ('ret', value) or ('exc', exception)."""
        RE = self.RE
        try:
            with contextlib.redirect_stdout(self.out):
                if kind == "pause":
                    t = RE.loop.create_task(RE._request_pause_coro(False))
                    return ("task", t)
                if kind == "defer":
                    t = RE.loop.create_task(RE._request_pause_coro(True))
                    return ("task", t)
                if kind == "abort":
                    return ("ret", RE.abort("lab"))
                if kind == "stop":
                    return ("ret", RE.stop())
                if kind == "halt":
                    return ("ret", RE.halt())
                if kind == "suspend":
                    ev = asyncio.Event()
                    RE.loop.call_later(kw.get("duration", 1.0), ev.set)
                    RE.request_suspend(ev.wait, pre_plan=kw.get("pre_plan"), post_plan=kw.get("post_plan"), justification=kw.get("justification"))
                    return ("ret", ev)
                raise ValueError(kind)
        except LabStuck:
            raise
        except Exception as e:  # noqa
            return ("exc", e)

    def call(self, fn, *a, **kw):
        """Invoke a blocking public API (RE(...), resume, abort, ...) and classify the outcome."""
        try:
            with contextlib.redirect_stdout(self.out), contextlib.redirect_stderr(self.out):
                return ("ret", fn(*a, **kw))
        except LabStuck as e:
            return ("stuck", e)
        except Exception as e:  # noqa
            return ("exc", e)

    def close(self):
        for fn in getattr(self, "cleanups", []):
            fn()
        self._rem.threading, self._rem._ensure_event_loop_running = self._saved
        self._bsus.threading = self._saved_sus
        try:
            self.loop.close()
        except Exception:  # noqa
            pass


class FakeStatus:
    def __init__(self):
        self.done = False
        self.success = False
        self._cbs = []
        self._exc = None

    def add_callback(self, cb):
        if self.done:
            cb(self)
        else:
            self._cbs.append(cb)

    def exception(self, timeout=None):
        return self._exc

    def finish(self, ok=True, exc=None):
        if self.done:
            return
        self.done, self.success, self._exc = True, ok, exc
        for cb in self._cbs:
            cb(self)

    @property
    def finished(self):
        return self.done


# ---------------------------------------------------------------------------------------------------- devices
class Dev:
    parent = None

    def __init__(self, name, lab):
        self.name, self.lab = name, lab
        self.staged = 0
        self.cfg = 0

    def __repr__(self):
        return f"<{self.name}>"

    def __hash__(self):
        return hash(self.name)

    def __eq__(self, other):
        return self is other

    def stage(self):
        self.lab.device_call(self, "stage")
        self.staged += 1
        return [self]

    def unstage(self):
        self.lab.device_call(self, "unstage")
        self.staged -= 1
        return [self]

    def read_configuration(self):
        self.lab.device_call(self, "read_configuration")
        return {self.name + "_cfg": {"value": self.cfg, "timestamp": self.lab.clock.t}}

    def describe_configuration(self):
        return {self.name + "_cfg": {"source": "lab", "dtype": "integer", "shape": []}}

    def configure(self, v):
        self.lab.device_call(self, "configure", v)
        old = self.read_configuration()
        self.cfg = v
        return old, self.read_configuration()


class Motor(Dev):
    def __init__(self, name, lab, delay=0.1):
        super().__init__(name, lab)
        self.pos = 0.0
        self.delay = delay

    @property
    def hints(self):
        return {"fields": [self.name]}

    @property
    def position(self):
        return self.pos

    def set(self, v):
        j = self.lab.device_call(self, "set", v)
        st = self.lab.status(j, self.delay)
        st.add_callback(lambda s, v=v: setattr(self, "pos", v) if s.success else None)
        self._moving = st
        return st

    def stop(self, success=True):
        self.lab.device_call(self, "stop")
        mv = getattr(self, "_moving", None)
        if mv is not None and not mv.done and not success:
            mv.finish(False, DeviceError(f"{self.name} stopped with success=False while moving"))  # what an ophyd positioner does

    def read(self):
        self.lab.device_call(self, "read")
        return {self.name: {"value": self.pos, "timestamp": self.lab.clock.t}}

    def describe(self):
        return {self.name: {"source": "lab", "dtype": "number", "shape": []}}


class Det(Dev):
    """Detector whose reading is a deterministic function of the motors' positions (so re-takes are reproducible)."""

    def __init__(self, name, lab, motors=(), delay=0.05, keys=None):
        super().__init__(name, lab)
        self.motors, self.delay = list(motors), delay
        self.ntrig = 0
        self.keys = keys or [name]

    @property
    def hints(self):
        return {"fields": list(self.keys)}

    def value(self):
        return 10.0 + sum((i + 1) * m.pos for i, m in enumerate(self.motors))

    def trigger(self):
        j = self.lab.device_call(self, "trigger")
        self.ntrig += 1
        return self.lab.status(j, self.delay)

    def read(self):
        self.lab.device_call(self, "read")
        return {k: {"value": self.value() + i, "timestamp": self.lab.clock.t} for i, k in enumerate(self.keys)}

    def describe(self):
        return {k: {"source": "lab", "dtype": "number", "shape": []} for k in self.keys}


class Signal(Dev):
    """Monitorable signal with ophyd's subscribe/clear_sub semantics (one entry per subscribe call, per event type)."""

    default_type = "value"

    def __init__(self, name, lab, value=0):
        super().__init__(name, lab)
        self.value = value
        self.entries = []  # (callback, event type)
        self.update_type = None  # event type of the updates pushed by the harness (None: the default type)

    @property
    def subs(self):
        return [cb for cb, _ in self.entries]

    def subscribe(self, cb, event_type=None, run=False):
        self.entries.append((cb, event_type or self.default_type))  # registered first: a device may fail after it has taken the callback
        self.lab.device_call(self, "subscribe")
        if run:
            cb(value=self.value, timestamp=self.lab.clock.t, obj=self)
        return len(self.entries)

    def clear_sub(self, cb, event_type=None):
        self.lab.device_call(self, "clear_sub")
        self.entries = [(c, t) for c, t in self.entries if not (c == cb and (event_type is None or t == event_type))]

    def put(self, v, event_type=None):
        self.value = v
        et = event_type or self.update_type or self.default_type
        for cb, t in list(self.entries):
            if t == et:
                cb(value=v, timestamp=self.lab.clock.t, obj=self, old_value=None)

    def get(self):
        return self.value

    def read(self):
        self.lab.device_call(self, "read")
        return {self.name: {"value": self.value, "timestamp": self.lab.clock.t}}

    def describe(self):
        return {self.name: {"source": "lab", "dtype": "number", "shape": []}}


class Flyer(Dev):
    def __init__(self, name, lab, nevents=2):
        super().__init__(name, lab)
        self.nevents = nevents
        self.kicked = 0
        self.collected = 0

    def kickoff(self):
        j = self.lab.device_call(self, "kickoff")
        self.kicked += 1
        return self.lab.status(j, 0.05)

    def complete(self):
        j = self.lab.device_call(self, "complete")
        return self.lab.status(j, 0.05)

    def describe_collect(self):
        return {self.name: {self.name + "_v": {"source": "lab", "dtype": "number", "shape": []}}}

    def collect(self):
        self.lab.device_call(self, "collect")
        self.collected += 1
        t = self.lab.clock.t
        for i in range(self.nevents):
            yield {"data": {self.name + "_v": float(i)}, "timestamps": {self.name + "_v": t}, "time": t}

    def stop(self, success=True):
        self.lab.device_call(self, "stop")


class AsyncStopMotor(Motor):
    """Motor whose stop() is a coroutine that really yields to the event loop."""

    async def stop(self, success=True):
        self.lab.device_call(self, "stop")
        await asyncio.sleep(0)
        await asyncio.sleep(0)


class StatusStageDet(Det):
    """ophyd-async style device: stage()/unstage() return a Status instead of a list."""

    def stage(self):
        j = self.lab.device_call(self, "stage")
        self.staged += 1
        return self.lab.status(j, 0.05)

    def unstage(self):
        j = self.lab.device_call(self, "unstage")
        self.staged -= 1
        return self.lab.status(j, 0.05)
