"""C21 -- plan_mutator inserts head/tail messages exactly as documented.

Host plan, head plan and tail plan are symbolic programs; the processor inserts at the k-th host message (k symbolic)
in one of the documented forms (head, None) / (head, tail) / (None, tail), where head either ends with the original
message or replaces it.  The trace of the real ``plan_mutator`` is compared with a reference written from the
docstring: run head as a plan, hand the response to head's last message to the host, then run tail with its
responses swallowed; any exception raised while the original message, head or tail is in flight is thrown into the
host at the original yield; a message object already offered to the processor is never offered again.
"""
from vlib import genlab
from vlib.harness import Harness, register
from vlib.symx import fork_int, goal, only_shard


def _kind(t, i):
    return t[i][0] if i < len(t) else "missing"


def ref_plan(plan, proc, seen, keep, top):
    """The documented insertion, recursively: every message not offered before is offered to the processor; a head
    (ending, or not, with the original message) runs as a plan in its place and the response to the head's last
    message answers the original yield; a tail runs afterwards with its responses swallowed; inserted messages are
    processed the same way.  An exception raised while a message is in flight goes to the innermost plan first."""
    from bluesky.utils import single_gen

    resp = None
    try:
        m = plan.send(None)
    except StopIteration as e:
        return e.value if top else None
    while True:
        try:
            if id(m) in seen:
                head = tail = None
            else:
                seen.add(id(m))
                keep.append(m)
                head, tail = proc(m)
            if head is None and tail is not None:
                head = single_gen(m)
            if head is None:
                resp = yield m
            else:
                resp = yield from ref_plan(head, proc, seen, keep, False)
                if tail is not None:
                    yield from ref_plan(tail, proc, seen, keep, False)
        except GeneratorExit:
            plan.close()
            raise
        except Exception as e:  # noqa
            try:
                m = plan.throw(e)
            except StopIteration as s:
                return s.value if top else resp
            continue
        try:
            m = plan.send(resp)
        except StopIteration as s:
            return s.value if top else resp


def ref_insert(host, proc):
    return (yield from ref_plan(host, proc, set(), [], True))


def make(P):
    import bluesky.preprocessors as bpp
    from bluesky.utils import Msg, single_gen

    L, Ls, S = P["L"], P["Ls"], P["S"]
    HOST_OPS = genlab.SIMPLE_OPS + (genlab.TRYEXC, genlab.TRYFIN)
    SUB_OPS = genlab.SIMPLE_OPS + (genlab.TRANS,)
    NACT = P.get("nact", 5)

    def h(c1: int, c2: int, c3: int, c4: int, h1: int, h2: int, t1: int, t2: int, k: int, form: int,
          a1: int, a2: int, a3: int, a4: int, a5: int, a6: int, a7: int, v1: int, v2: int, v3: int, v4: int, v5: int, v6: int, v7: int) -> str:
        code, hcode, tcode = [c1, c2, c3, c4][:L], [h1, h2][:Ls], [t1, t2][:Ls]
        script, vals = [a1, a2, a3, a4, a5, a6, a7][:S], [v1, v2, v3, v4, v5, v6, v7]
        form = fork_int(form, 0, 4)  # 0 (head+orig, None) 1 (head, None) 2 (head+orig, tail) 3 (head, tail) 4 (None, tail)
        kk = fork_int(k, 0, 3 if P.get("nested") else 1)
        k, nested = kk % 2, kk >= 2  # nested: the processor also attaches a one-message tail to the first message of an inserted head / tail
        only_shard(form * 2 + k + 10 * fork_int(c1, 0, len(HOST_OPS) - 1) + (70 if nested else 0), P)

        def mkproc(log, offered):
            n = {"host": 0}

            def proc(msg):
                if id(msg) in offered:
                    log.append(("offered-twice", genlab.msg_key(msg)))
                offered[id(msg)] = msg
                if nested and msg.obj in ("h", "t") and not n.get("nested-done"):
                    n["nested-done"] = True
                    log.append(("nested-insert-at", genlab.msg_key(msg)))

                    def ntail():
                        r = yield Msg("null", "n", 0)
                        log.append(("resp", "n", r))

                    return None, ntail()
                if msg.obj != "p":
                    return None, None
                i = n["host"]
                n["host"] += 1
                if i != k:
                    return None, None
                log.append(("insert-at", genlab.msg_key(msg)))

                def head():
                    yield from genlab.interp(hcode, log, tag="h", ops=SUB_OPS, maxdepth=1)
                    if form in (0, 2):
                        return (yield msg)

                def tail():
                    yield from genlab.interp(tcode, log, tag="t", ops=SUB_OPS, maxdepth=1)

                if form == 4:
                    return None, tail()
                return head(), (tail() if form in (2, 3) else None)

            return proc

        log0, log1 = [], []
        off0, off1 = {}, {}
        t0 = genlab.drive(ref_insert(genlab.interp(code, log0, ops=HOST_OPS), mkproc(log0, off0)), script, vals, nact=NACT)
        t1 = genlab.drive(bpp.plan_mutator(genlab.interp(code, log1, ops=HOST_OPS), mkproc(log1, off1)), script, vals, nact=NACT)
        tags = []
        if any(e[0] == "offered-twice" for e in log1):
            tags.append("plan_mutator:message-object-offered-to-processor-twice")
        i = genlab.first_diff(t0, t1)
        if i >= 0:
            tags.append(f"plan_mutator:trace-differs-from-documented-insertion:{_kind(t0, i)}-vs-{_kind(t1, i)}")
        j = genlab.first_diff(log0, log1)
        if j >= 0:
            tags.append(f"plan_mutator:plan-side-log-differs:{_kind(log0, j)}-vs-{_kind(log1, j)}")
        if any(e[0] == "insert-at" for e in log1):
            goal("inserted")
        if any(e[0] == "nested-insert-at" for e in log1):
            goal("nested-insertion")
        if any(e[0] == "resp" and e[1] == "t" for e in log1):
            goal("tail-got-response")
        if any(e[0] == "translate" for e in log1):
            goal("inserted-plan-translated-exception")
        if any(e[0] == "raise" and e[1] in ("h", "t") for e in log1) and any(e[0] == "caught" for e in log1):
            goal("insert-exception-caught-by-host")
        return ";".join(sorted(set(tags)))

    return h


def _fns():
    import bluesky.preprocessors as bpp

    return [bpp.plan_mutator]


register(Harness("c21_insert", "C21", make,
                 {"quick": dict(L=2, Ls=2, S=3, nact=4, nested=True, shards=32, budget_s=240, per_path_s=20), "thorough": dict(L=3, Ls=2, S=5, nact=5, nested=True, shards=60, budget_s=3000, per_path_s=30)},
                 goals=["inserted", "tail-got-response", "insert-exception-caught-by-host", "inserted-plan-translated-exception", "nested-insertion"], functions=_fns,
                 symbolic="host program: L opcodes in {yield, raise, return, end, try/except, try/finally}; head and tail programs: Ls opcodes in "
                 "{yield, raise, return, end, try-block-that-translates-a-thrown-exception}; insertion at host message k in {0,1}; form in {(head+orig,None),(head,None),(head+orig,tail),(head,tail),"
                 "(None,tail)}; optionally a nested one-message tail attached by the processor to the first message of the inserted head/tail; driver script of S actions {send symbolic int, throw Boom, throw RequestStop, close, send None}",
                 out_of_bound="head/tail plans that swallow exceptions thrown into them; nesting deeper than one one-message tail attached to the first inserted message; "
                 "'not re-processed' is checked as: a message object once offered to the processor is never offered again",
                 require_exhaustive=True))
