"""C13 -- each yield receives the response to its own message (RE-lab sweep, also under preprocessors and interruptions)."""
from vlib import oracles, reharness
from vlib.harness import Harness, register
from harnesses.c01_documents import OUT, STUBS, _fns

PLANS_Q = ["scan2", "bare", "stubbed", "staged_monitor", "nested_runs", "late_wait"]
PLANS_T = PLANS_Q + ["count2", "grid2x2", "flymon", "adaptive", "declared", "rel_scan2", "fly1"]
SYM = "plan index, loop step k1 of a pause (resumed) or 1 s suspension, call_returns_result in {False, True}"
for name, crr in (("c13_uids", False), ("c13_result", True)):
    register(Harness(name, "C13", (lambda crr: lambda P: reharness.make_sweep(P, oracles.c13_responses, plans=PLANS_Q if P["tier"] == "quick" else PLANS_T, kinds=["pause", "suspend"],
                                                                               decisions=["resume"], re_kwargs=dict(call_returns_result=crr), ctx=True))(crr),
                     {"quick": dict(shards=16, budget_s=300, per_path_s=30), "thorough": dict(shards=32, budget_s=3000, per_path_s=30)},
                     goals=["paused", "resumed", "suspended"], functions=_fns, mode="schedule", symbolic=SYM, out_of_bound=OUT, stubs=STUBS, require_exhaustive=True))
