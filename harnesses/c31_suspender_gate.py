"""C31 -- installed suspenders gate plan start and removal releases waiters.

Real ``SuspendBoolHigh`` suspenders on fake signals, the real ``RunEngine.install_suspender / remove_suspender`` and
``RE(...)`` in the lab.  Gate harness: a symbolic history of install / remove / signal-high / signal-low operations on two
suspenders is applied while idle, then a plan is started and every still-high signal goes low at a symbolic loop
step; the plan's first message must wait for that (plus the suspender's sleep) iff some suspender is installed and
tripped.  During harness: a signal goes high at step k (suspension), then release / remove / remove twice at step k2,
then high again; the plan must be held in between and a removed suspender must not react any more.
"""
import contextlib

from vlib import sweep
from vlib.harness import Harness, register
from vlib.relab import Motor, Signal
from vlib.symx import fork_int, fork_range, goal, notrace, only_shard
from harnesses.c01_documents import OUT, STUBS

SLEEP = 0.25


def _plan_factory(holder):
    def factory(lab):
        from bluesky.utils import Msg

        m = Motor("m1", lab)

        def plan():
            yield Msg("open_run")
            yield Msg("checkpoint")
            for i in range(4):
                yield Msg("null", None, i)
                yield Msg("sleep", None, 0.05)
            yield Msg("close_run")

        return plan(), dict(m1=m, **holder["signals"])

    return factory


def make_gate(P):
    import bluesky.suspenders as bs

    L = P["L"]

    def h(o1: int, o2: int, o3: int, o4: int, o5: int, u: int, swap: bool) -> str:
        OPS = P.get("ops") or list(range(8))
        ops = [OPS[fork_int(o, 0, len(OPS) - 1)] for o in [o1, o2, o3, o4, o5][:L]]
        only_shard(sum(o * 8**i for i, o in enumerate(ops[:2])), P)
        us = 3 if fork_int(u, 0, 1) == 0 else 6
        sw = True if swap else False
        with notrace():
            holder = {}
            installed = [False, False]

            def setup(lab):
                sigs = [Signal("s0", lab, 0), Signal("s1", lab, 0)]
                holder["signals"] = dict(s0=sigs[0], s1=sigs[1])
                # fixed hashes make the iteration order of the engine's suspender *set* deterministic (both orders are explored)
                classes = [type("Susp%d" % i, (bs.SuspendBoolHigh,), {"__hash__": (lambda self, v=(i if not sw else 1 - i): v)}) for i in range(2)]
                sus = [classes[i](sigs[i], sleep=SLEEP) for i in range(2)]
                holder["sus"] = sus
                with contextlib.redirect_stdout(lab.out):
                    for op in ops:
                        i, what = op % 2, op // 2
                        if what == 0:
                            if not installed[i]:
                                lab.RE.install_suspender(sus[i])
                                installed[i] = True
                        elif what == 1:
                            lab.RE.remove_suspender(sus[i])  # possibly not installed / removed twice: must be harmless
                            installed[i] = False
                        elif what == 2:
                            sigs[i].put(1)
                        else:
                            sigs[i].put(0)
                        lab.settle()
                holder["tripped"] = [installed[i] and bool(sigs[i].value) for i in range(2)]

            updates = [dict(step=us, signal="s0", value=0), dict(step=us + 2, signal="s1", value=0)]
            obs = sweep.run_case(_plan_factory(holder), (), "resume", setup=setup, updates=updates, followup=False)
            tags = []
            if obs.stuck:
                return "plan-never-started-or-engine-stuck"
            call = obs.calls[0]
            if call["outcome"] != "ret":
                tags.append(f"call-ended-with-{call['exc_type']}")
            gate = any(holder["tripped"])
            first_step = obs.msg_meta[0][0] if obs.msg_meta else None
            plan_first = next((s for m, (s, _c) in zip(obs.msgs, obs.msg_meta) if m.command == "open_run"), None)
            plan_first_t = next((t for m, t in zip(obs.msgs, obs.msg_times) if m.command == "open_run"), None)
            release_step = max([us + 2 * i for i in range(2) if holder["tripped"][i]], default=None)
            if gate:
                goal("gated")
                if plan_first is None or plan_first <= release_step:
                    tags.append("plan-started-although-an-installed-suspender-was-tripped")
                elif plan_first_t is not None and plan_first_t + 1e-9 < 1000.0 + SLEEP:
                    tags.append("plan-started-before-the-suspender's-sleep-elapsed")
            else:
                goal("not-gated")
                if plan_first is None or plan_first > 5:  # an ungated plan issues open_run at loop step 3
                    tags.append("plan-was-delayed-although-no-installed-suspender-was-tripped")
            if any(ops[i] // 2 == 1 for i in range(len(ops))):
                goal("removed")
            return ";".join(sorted(set(tags)))

    return h


def make_during(P):
    import bluesky.suspenders as bs

    def h(k: int, act: int, k2: int, again: int) -> str:
        kk = fork_range(k, 2, 14)
        a = fork_int(act, 0, 2)  # 0 signal low, 1 remove, 2 remove twice
        d2 = fork_int(k2, 1, 8)
        d3 = fork_int(again, 1, 8)
        only_shard(kk, P)
        with notrace():
            holder = {}

            def setup(lab):
                sig = Signal("s0", lab, 0)
                holder["signals"] = dict(s0=sig, s1=Signal("s1", lab, 0))
                holder["sus"] = s = bs.SuspendBoolHigh(sig, sleep=SLEEP)
                with contextlib.redirect_stdout(lab.out):
                    lab.RE.install_suspender(s)
                lab.settle()

                def do_remove(step, _done=[]):
                    # the "other thread" cannot get the suspender's lock while the signal callback holds it: it would simply wait
                    if step >= kk + d2 and not _done and not s._lock.locked():
                        _done.append(1)
                        with contextlib.redirect_stdout(lab.out):
                            lab.RE.remove_suspender(s)
                            if a == 2:
                                lab.RE.remove_suspender(s)

                holder["remove_hook"] = do_remove

            updates = [dict(step=kk, signal="s0", value=1)]
            if a == 0:
                updates.append(dict(step=kk + d2, signal="s0", value=0))
            updates.append(dict(step=kk + d2 + d3, signal="s0", value=1 if a else 0))
            # wrap the hook: run_case installs its own; piggy-back through an 'update' on a dummy signal is not possible, so patch after creation
            orig_run = sweep.run_case

            def factory(lab):
                plan, devs = _plan_factory(holder)(lab)
                if a:
                    inner = lab.pump_once

                    def pump():
                        holder["remove_hook"](lab.steps)
                        inner()

                    lab.pump_once = pump
                return plan, devs

            obs = orig_run(factory, (), "resume", setup=setup, updates=updates, followup=False)
            tags = []
            if obs.stuck:
                return "engine-stuck-after-suspension:" + ("released" if a == 0 else "removed")
            call = obs.calls[0]
            if call["outcome"] != "ret":
                tags.append(f"call-ended-with-{call['exc_type']}")
            starts = [i for i, m in enumerate(obs.msgs) if m.command == "_start_suspender"]
            if starts:
                goal("suspended")
            if a and len(starts) > 1:
                # a second suspension may only stem from the first 'high' (before removal)
                second = obs.msg_meta[starts[1]][0]
                if second > kk + d2 + 1:
                    tags.append("removed-suspender-still-reacts-to-signal-changes")
            for s in starts[:1]:
                r = next((j for j in range(s + 1, len(obs.msgs)) if obs.msgs[j].command == "_resume_from_suspender"), None)
                if r is None:
                    tags.append("suspension-never-released-by-" + ("release" if a == 0 else "removal"))
                    continue
                if obs.msg_meta[r][0] < kk + d2:
                    tags.append("plan-resumed-before-release-or-removal")
                if any(m.command in ("null", "sleep", "close_run") for m in obs.msgs[s + 1: r]):
                    tags.append("plan-message-executed-while-suspended")
            return ";".join(sorted(set(tags)))

    return h


def make_flap(P):
    """A flapping signal: high, low, high again within the suspender's settle time, low again.  The plan must be held
    from the first trip until the LAST recovery plus the settle time."""
    import bluesky.suspenders as bs

    def h(k: int, d2: int, d3: int, d4: int) -> str:
        kk = fork_range(k, 2, 7)  # early enough for all four changes to land while the plan is still running (late suspensions: C07/C03 findings)
        a2, a3, a4 = fork_int(d2, 1, 3), fork_int(d3, 1, 3), fork_int(d4, 1, 4)
        only_shard(kk, P)
        with notrace():
            holder = {}

            def setup(lab):
                sig = Signal("s0", lab, 0)
                holder["signals"] = dict(s0=sig, s1=Signal("s1", lab, 0))
                holder["sus"] = s = bs.SuspendBoolHigh(sig, sleep=SLEEP)
                with contextlib.redirect_stdout(lab.out):
                    lab.RE.install_suspender(s)
                lab.settle()

            steps = [kk, kk + a2, kk + a2 + a3, kk + a2 + a3 + a4]
            updates = [dict(step=st, signal="s0", value=v) for st, v in zip(steps, (1, 0, 1, 0))]
            obs = sweep.run_case(_plan_factory(holder), (), "resume", setup=setup, updates=updates, followup=False)
            if obs.stuck:
                return "engine-stuck-after-a-flapping-signal"
            call = obs.calls[0]
            tags = []
            if call["outcome"] != "ret":
                tags.append(f"call-ended-with-{call['exc_type']}")
            ups = [r for r in obs.reqs if r["kind"] == "update"]
            if len(ups) < 4:
                return ";".join(tags)  # the plan ended before the signal had flapped
            starts = [i for i, m in enumerate(obs.msgs) if m.command == "_start_suspender"]
            if not starts:
                return ";".join(tags)
            goal("suspended")
            # hold intervals from the signal history: tripped at a 'high', released SLEEP after the following 'low' unless tripped again before
            holds, cur = [], None
            for u in ups:
                if u["value"] == 1 and u["state"] in ("running", "suspending") or (u["value"] == 1 and cur is not None):
                    if cur is None:
                        cur = [u["t"], None]
                    else:
                        cur[1] = None  # tripped again before the release: the hold goes on
                elif u["value"] == 0 and cur is not None:
                    cur[1] = u["t"] + SLEEP
                if cur is not None and cur[1] is not None and cur not in holds:
                    holds.append(cur)
            if cur is not None and cur not in holds:
                holds.append(cur)
            # merge: a re-trip before the previous release time extends the same hold
            merged = []
            for a, b in holds:
                if merged and merged[-1][1] is not None and a <= merged[-1][1]:
                    merged[-1][1] = b
                else:
                    merged.append([a, b])
            if ups[2]["t"] < ups[1]["t"] + SLEEP:
                goal("tripped-again-within-the-settle-time")
            first_suspender = starts[0]
            for i, m in enumerate(obs.msgs):
                if i <= first_suspender or m.command not in ("null", "sleep", "close_run"):
                    continue
                t = obs.msg_times[i]
                for a, b in merged:
                    if b is not None and a + 1e-9 < t < b - 1e-9:
                        tags.append("plan-message-executed-while-the-signal-was-tripped-or-settling")
            return ";".join(sorted(set(tags)))

    return h


def _fns():
    import bluesky.suspenders as bs
    from bluesky.run_engine import RunEngine

    return [bs.SuspenderBase.install, bs.SuspenderBase.remove, bs.SuspenderBase.__call__, bs.SuspenderBase.get_futures, RunEngine.install_suspender,
            RunEngine.remove_suspender, RunEngine.__call__, RunEngine.request_suspend, RunEngine._start_suspender]


register(Harness("c31_gate", "C31", make_gate, {"quick": dict(L=4, ops=[0, 2, 4, 6, 1, 5], shards=48, budget_s=300, per_path_s=30), "thorough": dict(L=5, shards=64, budget_s=3000, per_path_s=30)},
                 goals=["gated", "not-gated", "removed"], functions=_fns, mode="schedule",
                 symbolic="history of L operations, each in {install, remove, signal high, signal low} x {suspender 0, suspender 1}, applied while idle; then a plan is started and "
                 "the high signals go low at loop step u in {3,6}; both iteration orders of the engine's suspender set", out_of_bound=OUT + "; suspender classes other than SuspendBoolHigh (their conditions are C30)",
                 stubs=STUBS + ["bluesky.suspenders.threading bound to the lab's pumping Event"], require_exhaustive=True))
register(Harness("c31_during", "C31", make_during, {"quick": dict(shards=13, budget_s=300, per_path_s=30)},
                 goals=["suspended"], functions=_fns, mode="schedule",
                 symbolic="signal goes high at loop step k in [2,14] of a running plan; after 1..8 steps it goes low / the suspender is removed / removed twice; 1..8 steps later the signal changes again",
                 out_of_bound=OUT, stubs=STUBS, require_exhaustive=True))
for _prop, _name in (("C31", "c31_flap"), ("C11", "c11_flap")):
    register(Harness(_name, _prop, make_flap, {"quick": dict(shards=6, budget_s=300, per_path_s=30)},
                     goals=["suspended", "tripped-again-within-the-settle-time"], functions=_fns, mode="schedule",
                     symbolic="a real SuspendBoolHigh(sleep=0.25 s) on a signal that goes high at loop step k in [2,7], low 1..3 steps later, high again 1..3 steps later, low again 1..4 steps later",
                     out_of_bound=OUT + "; other suspender classes (their conditions are C30)", stubs=STUBS + ["bluesky.suspenders.threading bound to the lab's pumping Event"], require_exhaustive=True))
