"""C16 -- descriptors carry the configuration current when made: shares the generated-bundle harness of C15."""
import harnesses.c15_bundles  # noqa: F401  (registers c16_bundles / c16_bundles_full)
