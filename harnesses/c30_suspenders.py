"""C30 -- suspenders trip and release exactly on their documented conditions.

The real suspender classes are constructed on a fake signal and attached to a
fake RunEngine whose loop executes ``call_soon_threadsafe`` callbacks at once
and records ``request_suspend`` / release (``call_later(sleep, ev.set)``)
calls.  Thresholds, band limits, expected values and the value sequence are
symbolic; the reference is the decision automaton of the class docstrings.
"""
import contextlib
import io
import types

from vlib.harness import Harness, register
from vlib.symx import Real, assume, goal


class FakeSignal:
    name = "sig"

    def __init__(self, value=0):
        self.value = value
        self.subs = []

    def get(self):
        return self.value

    def subscribe(self, cb, event_type=None, run=True):
        self.subs.append(cb)

    def clear_sub(self, cb):
        self.subs = [c for c in self.subs if c is not cb]


class FakeLoop:
    def __init__(self, ledger):
        self.ledger = ledger

    def call_soon_threadsafe(self, cb, *a):
        r = cb(*a)
        return types.SimpleNamespace(cancel=lambda: None, result=r)

    def call_later(self, delay, cb, *a):
        self.ledger.append("release")
        cb(*a)


class FakeRE:
    def __init__(self):
        self.ledger = []
        self._loop = FakeLoop(self.ledger)
        self.state = types.SimpleNamespace(is_running=True)

    def request_suspend(self, fut, *, pre_plan=None, post_plan=None, justification=None):
        self.ledger.append("suspend")


def _quiet(cls):
    """Subclass whose justification text (f-strings that would realise the symbolic numbers) is a constant."""
    return type(cls.__name__, (cls,), {"_get_justification": lambda self: "tripped" if self.tripped else ""})


def _drive(susp, values, S, R, who):
    """Feed values; compare tripped flag and suspend/release ledger with the reference automaton."""
    RE = FakeRE()
    susp.RE = RE  # what install() does, minus the signal subscription
    held = False
    tags = []
    for i, v in enumerate(values):
        n0 = len(RE.ledger)
        with contextlib.redirect_stdout(io.StringIO()):
            susp(v)
        new = RE.ledger[n0:]
        rs, rr = bool(susp._should_suspend(v)), bool(susp._should_resume(v))
        if rs and rr:
            tags.append(f"{who}:suspend-and-resume-both-true")
        s, r = S(v), R(v)
        if s:
            exp = [] if held else ["suspend"]
            held = True
            goal("tripped")
        elif r:
            exp = ["release"] if held else []
            if held:
                goal("released")
            held = False
        else:
            exp = []
            if held:
                goal("hysteresis-hold")
        if new != exp:
            tags.append(f"{who}:wrong-action-at-value")
        if bool(susp.tripped) != held:
            tags.append(f"{who}:tripped-flag-mismatch")
        if tags:
            break
    return ";".join(sorted(set(tags)))


def make_threshold(P):
    import bluesky.suspenders as bs

    nv = P["nvals"]

    def h(floor: bool, s: Real, r: Real, has_r: bool, v1: Real, v2: Real, v3: Real, v4: Real, v5: Real, v6: Real) -> str:
        cls = _quiet(bs.SuspendFloor if floor else bs.SuspendCeil)
        who = cls.__name__
        kw = {"resume_thresh": r} if has_r else {}
        rr = r if has_r else s
        invalid = (rr < s) if floor else (rr > s)
        try:
            susp = cls(FakeSignal(), s, **kw)
        except ValueError:
            goal("rejected-thresholds")
            return "" if invalid else f"{who}:valid-thresholds-rejected"
        if invalid:
            return f"{who}:invalid-thresholds-accepted"
        if floor:
            S, R = (lambda v: v < s), (lambda v: v >= rr)
        else:
            S, R = (lambda v: v > s), (lambda v: v <= rr)
        return _drive(susp, [v1, v2, v3, v4, v5, v6][:nv], S, R, who)

    return h


def make_band(P):
    import warnings

    import bluesky.suspenders as bs

    nv = P["nvals"]

    def h(kind: int, bot: Real, top: Real, v1: Real, v2: Real, v3: Real, v4: Real, v5: Real, v6: Real) -> str:
        assume(0 <= kind <= 2)
        cls = _quiet((bs.SuspendWhenOutsideBand, bs.SuspendInBand, bs.SuspendOutBand)[kind])
        who = cls.__name__
        try:
            with warnings.catch_warnings():
                warnings.simplefilter("ignore")
                susp = cls(FakeSignal(), bot, top)
        except ValueError:
            goal("rejected-band")
            return "" if not (bot < top) else f"{who}:valid-band-rejected"
        if not (bot < top):
            return f"{who}:invalid-band-accepted"
        inside = lambda v: bot < v and v < top  # noqa: E731
        if kind == 2:  # deprecated SuspendOutBand: suspend while inside
            S, R = inside, (lambda v: not inside(v))
        else:
            S, R = (lambda v: not inside(v)), inside
        return _drive(susp, [v1, v2, v3, v4, v5, v6][:nv], S, R, who)

    return h


def make_bool(P):
    import bluesky.suspenders as bs

    nv = P["nvals"]

    def h(high: bool, v1: int, v2: int, v3: int, v4: int, v5: int, v6: int) -> str:
        cls = _quiet(bs.SuspendBoolHigh if high else bs.SuspendBoolLow)
        susp = cls(FakeSignal())
        if high:
            S, R = (lambda v: v != 0), (lambda v: v == 0)
        else:
            S, R = (lambda v: v == 0), (lambda v: v != 0)
        return _drive(susp, [v1, v2, v3, v4, v5, v6][:nv], S, R, cls.__name__)

    return h


def make_changed(P):
    import bluesky.suspenders as bs

    nv = P["nvals"]

    def h(expected: int, has_expected: bool, allow_resume: bool, sigval: int, v1: int, v2: int, v3: int, v4: int, v5: int, v6: int) -> str:
        kw = {"expected_value": expected} if has_expected else {}
        susp = _quiet(bs.SuspendWhenChanged)(FakeSignal(sigval), allow_resume=allow_resume, **kw)
        exp = expected if has_expected else sigval
        if has_expected:
            goal("explicit-expected")
            if susp.expected_value != exp:
                return "SuspendWhenChanged:explicit-expected-value-not-honoured"
        elif susp.expected_value != exp:
            return "SuspendWhenChanged:default-expected-value-not-signal-value"
        S = lambda v: v != exp  # noqa: E731
        R = lambda v: allow_resume and v == exp  # noqa: E731
        return _drive(susp, [v1, v2, v3, v4, v5, v6][:nv], S, R, "SuspendWhenChanged")

    return h


def _fns():
    import bluesky.suspenders as bs

    return [
        bs.SuspenderBase.__call__,
        bs._Threshold.__init__,
        bs._Threshold._should_suspend,
        bs._Threshold._should_resume,
        bs.SuspendFloor._validate,
        bs.SuspendCeil._validate,
        bs._SuspendBandBase.__init__,
        bs.SuspendWhenOutsideBand._should_suspend,
        bs.SuspendWhenOutsideBand._should_resume,
        bs.SuspendOutBand._should_suspend,
        bs.SuspendOutBand._should_resume,
        bs.SuspendBoolHigh._should_suspend,
        bs.SuspendBoolHigh._should_resume,
        bs.SuspendBoolLow._should_suspend,
        bs.SuspendBoolLow._should_resume,
        bs.SuspendWhenChanged.__init__,
        bs.SuspendWhenChanged._should_suspend,
        bs.SuspendWhenChanged._should_resume,
    ]


_STUBS = [
    "fake RunEngine: loop.call_soon_threadsafe runs the callback at once; request_suspend / call_later(sleep, ev.set) are recorded",
    "fake signal with .value/.get(); values are non-NaN (reals or ints)",
    "_get_justification (message text only; its f-strings would realise the symbolic numbers) returns a constant",
]
_OPQ = "text rendering of a symbolic number is the opaque constant '<sym>' (used only in error/trip messages)"
_T = {"quick": dict(nvals=4, shards=1, budget_s=90, per_path_s=10), "thorough": dict(nvals=6, shards=1, budget_s=1200, per_path_s=20)}

register(Harness("c30_threshold", "C30", make_threshold, _T, goals=["tripped", "released", "hysteresis-hold", "rejected-thresholds"],
                 functions=_fns, symbolic="class in {SuspendFloor,SuspendCeil}; suspend/resume thresholds: any reals, resume threshold optional; "
                 "value sequence of nvals arbitrary reals", out_of_bound="NaN values; sequences longer than nvals (the automaton has 2 states, so nvals=3 "
                 "already covers every transition pair)", stubs=_STUBS + [_OPQ], float_model="real", opaque_text=True, require_exhaustive=True))
register(Harness("c30_band", "C30", make_band, _T, goals=["tripped", "released", "rejected-band"], functions=_fns,
                 symbolic="class in {SuspendWhenOutsideBand,SuspendInBand,SuspendOutBand}; band limits any reals; nvals arbitrary real values",
                 out_of_bound="NaN", stubs=_STUBS + [_OPQ], float_model="real", opaque_text=True, require_exhaustive=True))
register(Harness("c30_bool", "C30", make_bool, _T, goals=["tripped", "released"], functions=_fns,
                 symbolic="class in {SuspendBoolHigh,SuspendBoolLow}; nvals arbitrary ints", stubs=_STUBS, require_exhaustive=True))
register(Harness("c30_changed", "C30", make_changed, _T, goals=["tripped", "explicit-expected"], functions=_fns,
                 symbolic="expected_value any int or absent; allow_resume; signal value at construction any int; nvals arbitrary ints",
                 out_of_bound="string-valued signals", stubs=_STUBS, require_exhaustive=True))
