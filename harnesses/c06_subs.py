"""C06, last clause -- per-call subscriptions are removed from the dispatcher before the next call starts.

Reuses the C18 RunEngine-level scenario (permanent / per-call / in-plan subscriptions of the same callables under
different document names, a pause with every decision, then a second plain call) and keeps only the verdicts about
the second call: a callable whose only subscriptions were per-call or in-plan receives nothing from it, and no
temporary token is left behind.
"""
from vlib.harness import Harness, register
from harnesses.c01_documents import OUT, STUBS
from harnesses import c18_re

register(Harness("c06_subs", "C06", c18_re.make, {"quick": dict(call2_only=True, perms=[0, 2, 3], ips=[0, 2], mids=[0], shards=16, budget_s=300, per_path_s=30),
                                                   "thorough": dict(call2_only=True, shards=80, budget_s=3000, per_path_s=30)},
                 goals=["second-call", "paused", "resumed", "ended-by-abort-or-stop"], functions=c18_re._fns, mode="schedule",
                 symbolic="as c18_re (permanent subscription kind, RE(...) subs, in-plan subscription, pause step, decision); quick tier: permanent in {none, event, start}, in-plan in {none, subscribe+unsubscribe}",
                 out_of_bound=OUT + "; see c18_re", stubs=STUBS, require_exhaustive=True))
