"""C11 with a real suspender on a flapping signal: the harness lives in c31_suspender_gate.py (registered for C31 and C11)."""
from harnesses import c31_suspender_gate  # noqa: F401
