"""C37 -- file-name templates expand exactly like printf (engine E2: direct SMT over the index).

The template grammar ``%[flags][width][.precision]d`` with flags a subset of {-,+,space,0,#}, width in {none, 1..W}
and precision in {none} or [width..W] is enumerated through solver forks.  For each template the REAL
MultipartRelatedConsolidator rewrites it (int_replacer) into a new-style format specifier; the frame index is then
an unbounded symbolic non-negative integer, represented by its decimal digit string s in 0|[1-9][0-9]*, and z3's
string theory decides ``exists s: python_format(spec, s) != printf(template, s)`` where both sides are short
executable models (padding to a width / precision) that are validated, for every template, against the real
``str.format`` and the C library's ``snprintf`` on sample indices.  unsat: the file names agree for every index of any
size; sat: the index is replayed against the real ``get_datum_uri`` and libc before it is reported.
"""
import ctypes
import re

from vlib.harness import Harness, register
from vlib.symx import HarnessError, fork_range, goal, notrace, only_shard

FLAGCHARS = "-+ 0#"
SAMPLES = [0, 1, 7, 9, 10, 42, 99, 100, 12345, 10**6 - 1, 10**6, 10**11 + 7, 10**12, 10**13 + 1]
_LIBC = ctypes.CDLL(None)


def c_printf(template, n):
    buf = ctypes.create_string_buffer(256)
    _LIBC.snprintf(buf, ctypes.c_size_t(256), template.replace("d", "lld").encode(), ctypes.c_longlong(n))
    return buf.value.decode()


def consolidator(template):
    from bluesky.consolidators import TIFFConsolidator

    sres = dict(uid="sr", mimetype="multipart/related;type=image/tiff", uri="file://localhost/data/", data_key="img", parameters={"template": template})
    desc = dict(uid="d", data_keys={"img": dict(dtype="array", shape=[1, 2, 2], source="s", external="STREAM:")})
    return TIFFConsolidator(sres, desc)


class Models:
    def __init__(self):
        import z3

        self.z3 = z3
        self.ctx = z3.Context()
        self.Z = z3.StringVal("0" * 64, self.ctx)
        self.SP = z3.StringVal(" " * 64, self.ctx)
        self.s = z3.String("s", self.ctx)
        sv = lambda x: z3.StringVal(x, self.ctx)  # noqa
        self.digits = z3.Union(z3.Re(sv("0")), z3.Concat(z3.Range(sv("1"), sv("9")), z3.Star(z3.Range(sv("0"), sv("9")))))

    def sv(self, x):
        return self.z3.StringVal(x, self.ctx)

    def zeros(self, k):
        return self.z3.SubString(self.Z, 0, k)

    def spaces(self, k):
        return self.z3.SubString(self.SP, 0, k)

    def imax(self, a, b):
        return self.z3.If(a > b, a, b)

    def printf(self, s, flags, width, prec):
        """C99 7.19.6.1 for the d conversion of a non-negative value."""
        z3 = self.z3
        sign = "+" if "+" in flags else (" " if " " in flags else "")
        S = self.sv(sign)
        if prec is not None:
            padded = z3.Concat(self.zeros(self.imax(prec - z3.Length(s), 0)), s)
            digits = z3.If(s == self.sv("0"), self.sv(""), padded) if prec == 0 else padded
        else:
            digits = s
        body = z3.Concat(S, digits)
        pad = self.imax((width or 0) - z3.Length(body), 0)
        if "-" in flags:
            return z3.Concat(body, self.spaces(pad))
        if "0" in flags and prec is None:
            return z3.Concat(S, self.zeros(pad), digits)
        return z3.Concat(self.spaces(pad), body)

    def pyformat(self, s, spec):
        """Python format-spec mini-language for 'd' as far as int_replacer can emit it: [<][+| ][0][width]d."""
        z3 = self.z3
        m = re.fullmatch(r"\{:(<)?([+ ])?(0)?(\d+)?d\}", spec)
        if m is None:
            raise HarnessError(f"specifier {spec!r} is outside the modelled subset of the format mini-language")
        align, sign, zero, width = m.groups()
        S = self.sv(sign or "")
        body = z3.Concat(S, s)
        pad = self.imax((int(width) if width else 0) - z3.Length(body), 0)
        if align == "<":
            return z3.Concat(body, self.zeros(pad) if zero else self.spaces(pad))
        if zero:
            return z3.Concat(S, self.zeros(pad), s)
        return z3.Concat(self.spaces(pad), body)

    def evaluate(self, term, n):
        z3 = self.z3
        sol = z3.Solver(ctx=self.ctx)
        sol.add(self.s == self.sv(str(n)))
        if str(sol.check()) != "sat":
            raise HarnessError("model evaluation failed")
        return sol.model().eval(term, model_completion=True).as_string()


_M = []


def make(P):
    W = P["W"]

    def h(fl: int, w: int, p: int) -> str:
        fi = fork_range(fl, 0, 31)
        wi = fork_range(w, 0, W)  # 0: no width
        only_shard(fi + 32 * wi, P)
        pi = fork_range(p, wi - 1, W)  # the lowest value stands for "no precision"; otherwise the precision, in [width..W] (0..W without a width)
        with notrace():
            flags = "".join(c for i, c in enumerate(FLAGCHARS) if (fi >> i) & 1)
            width = wi or None
            lo = wi - 1
            prec = None if pi == lo else pi
            conv = "%" + flags + (str(width) if width else "") + (f".{prec}" if prec is not None else "") + "d"
            template = "f_" + conv + ".tif"
            cls = f"flags[{flags}]-width[{'yes' if width else 'no'}]-precision[{'no' if prec is None else ('0' if prec == 0 else ('more-digits-than-width' if width and len(str(prec)) > len(str(width)) else 'yes'))}]"
            goal("template")
            if prec is not None and width:
                goal("width-and-precision")
            cons = consolidator(template)
            spec = cons.template[2:-4]
            try:
                spec.format(0)
            except Exception as e:  # noqa
                return f"template-raises-{type(e).__name__}-for-every-index:{cls}"
            if not _M:
                _M.append(Models())
            M = _M[0]
            z3 = M.z3
            try:
                py = M.pyformat(M.s, spec)
            except HarnessError:
                # a specifier the model does not cover (e.g. a template left unconverted): no verdict for all indices, but a
                # concrete disagreement on a sample index is still a genuine violation
                for n in SAMPLES:
                    try:
                        real = cons.get_datum_uri(n)
                    except Exception as e:  # noqa
                        real = f"<{type(e).__name__}>"
                    if real != "file://localhost/data/f_" + c_printf(conv, n) + ".tif":
                        return f"file-name-differs-from-printf(unmodelled-specifier):{cls}"
                raise
            c = M.printf(M.s, flags, width, prec)
            # translator validation: both models against the real str.format and libc on sample indices
            for n in SAMPLES:
                if M.evaluate(py, n) != spec.format(n):
                    raise HarnessError(f"python-format model disagrees with str.format: {spec!r} {n}")
                if M.evaluate(c, n) != c_printf(conv, n):
                    raise HarnessError(f"printf model disagrees with libc: {conv!r} {n}")
            sol = z3.Solver(ctx=M.ctx)
            sol.set("timeout", 60000)
            sol.add(z3.InRe(M.s, M.digits))
            sol.add(py != c)
            sol.push()
            sol.add(M.s != M.sv("0"))
            r = str(sol.check())
            only_zero = False
            if r == "unsat":
                sol.pop()
                r = str(sol.check())
                only_zero = True
            if r == "unknown":
                raise HarnessError(f"z3 returned unknown for {conv!r}")
            if r == "unsat":
                return ""
            n = int(sol.model()[M.s].as_string())
            real = cons.get_datum_uri(n)
            want = "file://localhost/data/f_" + c_printf(conv, n) + ".tif"
            if real == want:
                raise HarnessError(f"counterexample {conv!r} index {n} does not reproduce against get_datum_uri and libc")
            if only_zero:
                return "explicit-zero-precision-prints-a-digit-for-index-0-where-printf-prints-nothing"
            return f"file-name-differs-from-printf:{cls}"

    return h


def _fns():
    from bluesky.consolidators import MultipartRelatedConsolidator

    return [MultipartRelatedConsolidator.__init__, MultipartRelatedConsolidator.get_datum_uri]


register(Harness("c37_printf", "C37", make, {"quick": dict(W=12, shards=16, budget_s=600, per_path_s=120), "thorough": dict(W=20, shards=32, budget_s=3000, per_path_s=120)},
                 goals=["template", "width-and-precision"], functions=_fns, mode="schedule",
                 symbolic="template: flags any subset of {-,+,space,0,#}, width in {none,1..W}, precision in {none} or [width..W] (solver forks); frame index: ANY non-negative integer (decimal digit string of "
                 "unbounded length in z3's string theory, one query per template, plus one excluding index 0)",
                 out_of_bound="width or precision above W; precision smaller than the width (excluded by the statement); conversions other than d; negative indices; the %s filename substitution",
                 stubs="python str.format and C printf are represented by executable z3 models validated per template against the real str.format and libc snprintf on 14 sample indices up to 10**13",
                 require_exhaustive=True))
