"""C25 -- step scans visit exactly the documented trajectory.

Two layers.  c25_patterns (traced): the real ``plan_patterns`` products that compute the trajectories run
symbolically (numpy replaced by ``symnp``) with start/stop/list values as symbolic reals and point counts, motor
counts and snake settings chosen by solver forks; every point of the resulting cycler is compared with the
reference.  c25_plans (schedule): the real plans (scan, inner_product_scan, list_scan, grid_scan, list_grid_scan,
scan_nd, x2x_scan) run natively for every solver-chosen combination of plan, counts, snake setting and value
pattern (including repeated positions, which make move_per_step skip a set); a message consumer plays the
RunEngine's part (applies ``set``, answers ``read``/``locate`` with the tracked positions).  Reference from the docstrings: point i of an inner-product
scan puts every motor at start + i*(stop-start)/(num-1); an outer-product scan is row-major with the first motor
slowest and a snaked axis reversed on every odd pass of the next slower axis.  Checked: the motors' positions at
every reading equal the reference point (sets may be skipped only when the position is already right), one
checkpoint and exactly one saved reading per point, no other sets while the run is open, and the RunStart
metadata: num_points, num_intervals, shape, extents, snaking.
"""
from vlib import symnp
from vlib.harness import Harness, register
from vlib.symx import Real, fork_bool, fork_int, goal, notrace, only_shard

KINDS = ["scan", "inner_product_scan", "list_scan", "grid_scan", "list_grid_scan", "scan_nd", "x2x_scan"]


class Motor:
    parent = None

    def __init__(self, name):
        self.name = name

    @property
    def hints(self):
        return {"fields": [self.name]}

    def set(self, v):
        return None

    def read(self):
        return {}

    def describe(self):
        return {self.name: {"source": "m", "dtype": "number", "shape": []}}

    def __repr__(self):
        return self.name


class Det:
    parent = None
    name = "det"
    hints = {"fields": ["det"]}

    def trigger(self):
        return None

    def read(self):
        return {}

    def describe(self):
        return {"det": {"source": "d", "dtype": "number", "shape": []}}

    def __repr__(self):
        return "det"


def lin(a, b, n, i):
    return a if n == 1 else a + i * (b - a) / (n - 1)


def consume(gen, pos):
    """Plays the engine: returns (runs, problems); a run = dict(md, points=[positions at each save], checkpoints per point)."""
    runs, problems = [], []
    cur = None
    ckpt_since_save = 0
    sets_since_save = 0
    try:
        m = gen.send(None)
        while True:
            c, r = m.command, None
            if c == "open_run":
                cur = dict(md=dict(m.kwargs), points=[], ckpts=[], reads=[])
                runs.append(cur)
                ckpt_since_save = 0
            elif c == "close_run":
                cur = None
            elif c == "checkpoint":
                ckpt_since_save += 1
            elif c == "set":
                pos[m.obj.name] = m.args[0]
            elif c in ("read", "locate"):
                if isinstance(m.obj, Motor):
                    v = pos[m.obj.name]
                    r = {m.obj.name: {"value": v, "timestamp": 0.0}} if c == "read" else {"setpoint": v, "readback": v}
                    if cur is not None and c == "read":
                        cur["reads"].append(m.obj.name)
                else:
                    r = {"det": {"value": 1.0, "timestamp": 0.0}}
            elif c == "save":
                if cur is None:
                    problems.append("save-outside-a-run")
                else:
                    cur["points"].append(dict(pos))
                    cur["ckpts"].append(ckpt_since_save)
                    ckpt_since_save = 0
            elif c in ("stage", "unstage"):
                r = [m.obj]
            m = gen.send(r)
    except StopIteration:
        pass
    return runs, problems


def make(P):
    import bluesky.plan_patterns as pp
    import bluesky.plan_stubs as bps
    import bluesky.plans as bp
    import bluesky.utils as bu
    from cycler import cycler

    symnp.selftest()
    N = P["N"]

    VALS = [0.0, 1.0, -1.0, 2.0]

    def h(kind: int, nm: int, n1: int, n2: int, snk: int, a1: int, b1: int, a2: int, b2: int, v1: int, v2: int, v3: int, w1: int, w2: int, w3: int, i1: int, i2: int, add: bool) -> str:
        k = fork_int(kind, 0, len(KINDS) - 1)
        nn1 = fork_int(n1, 1, N)
        # value pattern: every number is one of four exactly representable values (repeats included on purpose)
        name = KINDS[k]
        z = 0
        nm_ = fork_int(nm, 1, 2) if name in ("scan", "inner_product_scan", "list_scan") else 2
        add_ = fork_bool(add) if name == "scan_nd" else False
        n2_ = fork_int(n2, 1, N) if (name in ("grid_scan", "list_grid_scan") or (name == "scan_nd" and not add_)) else 1
        snk_ = fork_int(snk, 0 if name == "grid_scan" else 1, 3) if name in ("grid_scan", "list_grid_scan") else 0
        only_shard(k * 8 + nn1 + 29 * n2_ + 97 * snk_ + 7 * nm_ + (3 if add_ else 0), P)
        uses_lin = name in ("scan", "inner_product_scan", "grid_scan", "x2x_scan")
        a1, b1 = (VALS[fork_int(x, 0, 3)] for x in (a1, b1)) if uses_lin else (0.0, 1.0)
        a2, b2 = (VALS[fork_int(x, 0, 3)] for x in (a2, b2)) if (uses_lin and name != "x2x_scan" and nm_ == 2) else (0.0, 1.0)
        if uses_lin:
            v1 = v2 = v3 = w1 = w2 = w3 = 0.0
        else:
            v1, v2, v3 = [VALS[fork_int(x, 0, P["lv"])] for x in (v1, v2, v3)[:nn1]] + [0.0] * (3 - nn1)
            nw = n2_ if (name == "list_grid_scan" or (name == "scan_nd" and not add_)) else nn1
            w1, w2, w3 = ([VALS[fork_int(x, 0, P["lv"])] for x in (w1, w2, w3)[:nw]] + [0.0] * (3 - nw)) if nm_ == 2 else (0.0, 0.0, 0.0)
        i1, i2 = 10.0, 20.0
        with notrace():
            return run_plan(k, nm_, nn1, n2_, snk_, a1, b1, a2, b2, v1, v2, v3, w1, w2, w3, i1, i2, add_)

    def run_plan(k, nm, n, n2, snk, a1, b1, a2, b2, v1, v2, v3, w1, w2, w3, i1, i2, add):
        name = KINDS[k]
        m1, m2, det = Motor("m1"), Motor("m2"), Det()
        pos = {"m1": i1, "m2": i2}
        tags = []
        if True:
            if name in ("scan", "inner_product_scan"):
                two = nm == 2
                args = [m1, a1, b1] + ([m2, a2, b2] if two else [])
                gen = bp.scan([det], *args, num=n) if name == "scan" else bp.inner_product_scan([det], n, *args)
                ref = [dict(m1=lin(a1, b1, n, i), **({"m2": lin(a2, b2, n, i)} if two else {})) for i in range(n)]
                md_want = dict(num_points=n, num_intervals=n - 1)
            elif name == "list_scan":
                two = nm == 2
                l1, l2 = [v1, v2, v3][:n], [w1, w2, w3][:n]
                gen = bp.list_scan([det], m1, l1, *([m2, l2] if two else []))
                ref = [dict(m1=l1[i], **({"m2": l2[i]} if two else {})) for i in range(n)]
                md_want = dict(num_points=n, num_intervals=n - 1)
            elif name in ("grid_scan", "list_grid_scan"):
                nn2 = n2
                s = snk  # None (grid_scan only) / False / True / [m2]
                snake_axes = [None, False, True, [m2]][s]
                snaked = s >= 2
                if name == "grid_scan":
                    gen = bp.grid_scan([det], m1, a1, b1, n, m2, a2, b2, nn2, snake_axes=snake_axes)
                    slow = [lin(a1, b1, n, i) for i in range(n)]
                    fast = [lin(a2, b2, nn2, j) for j in range(nn2)]
                    md_want = dict(num_points=n * nn2, num_intervals=n * nn2 - 1, shape=(n, nn2), extents=([a1, b1], [a2, b2]), snaking=(False, snaked))
                else:
                    slow, fast = [v1, v2, v3][:n], [w1, w2, w3][:nn2]
                    gen = bp.list_grid_scan([det], m1, slow, m2, fast, snake_axes=snake_axes)
                    md_want = dict(num_points=n * nn2, num_intervals=n * nn2 - 1, shape=(n, nn2), extents=([min(slow), max(slow)], [min(fast), max(fast)]))
                ref = []
                for i in range(n):
                    row = fast[::-1] if (snaked and i % 2 == 1) else fast
                    ref += [dict(m1=slow[i], m2=x) for x in row]
                if snaked and n >= 2 and nn2 >= 2:
                    goal("snaked-grid")
            elif name == "scan_nd":
                l1 = [v1, v2, v3][:n]
                if add:
                    l2 = [w1, w2, w3][:n]
                    cyc = cycler(m1, l1) + cycler(m2, l2)
                    ref = [dict(m1=l1[i], m2=l2[i]) for i in range(n)]
                else:
                    nn2 = n2
                    l2 = [w1, w2, w3][:nn2]
                    cyc = cycler(m1, l1) * cycler(m2, l2)
                    ref = [dict(m1=x, m2=y) for x in l1 for y in l2]
                gen = bp.scan_nd([det], cyc)
                md_want = dict(num_points=len(ref), num_intervals=len(ref) - 1)
            else:  # x2x_scan: relative to where the motors are
                gen = bp.x2x_scan([det], m1, m2, a1, b1, n)
                ref = [dict(m1=i1 + lin(a1, b1, n, i), m2=i2 + lin(a1 / 2, b1 / 2, n, i)) for i in range(n)]
                md_want = dict(num_points=n, num_intervals=n - 1)
            runs, problems = consume(gen, pos)
        tags += problems
        if len(runs) != 1:
            return "not-exactly-one-run"
        run = runs[0]
        if len(run["points"]) != len(ref):
            return f"{name}:number-of-readings-differs-from-the-documented-number-of-points"
        if len(ref) >= 3:
            goal("three-or-more-points")
        for got, want, ck in zip(run["points"], ref, run["ckpts"]):
            for mn, x in want.items():
                if got[mn] != x:
                    tags.append(f"{name}:reading-taken-away-from-the-documented-point")
            if ck != 1:
                tags.append(f"{name}:not-exactly-one-checkpoint-per-point")
        md = run["md"]
        for key, want in md_want.items():
            got = md.get(key)
            if isinstance(want, tuple):
                ok = got is not None and len(got) == len(want) and all((list(g) == list(w)) if isinstance(w, list) else (g == w) for g, w in zip(got, want))
            else:
                ok = got == want
            if not ok:
                tags.append(f"{name}:metadata-{key}-inconsistent-with-the-trajectory")
        if name == "x2x_scan" and (pos["m1"] != i1 or pos["m2"] != i2):
            tags.append("x2x_scan:motors-not-returned-to-their-initial-positions")
        return ";".join(sorted(set(tags)))

    return h


def _fns():
    import bluesky.plan_patterns as pp
    import bluesky.plan_stubs as bps
    import bluesky.plans as bp

    return [bp.scan, bp.inner_product_scan, bp.list_scan, bp.grid_scan, bp.list_grid_scan, bp.scan_nd, bp.x2x_scan, pp.inner_product, pp.outer_product, pp.inner_list_product,
            pp.outer_list_product, bps.one_nd_step, bps.move_per_step]


def make_patterns(P):
    import bluesky.plan_patterns as pp
    import bluesky.utils as bu

    symnp.selftest()
    N = P["N"]

    def h(kind: int, nm: int, n1: int, n2: int, snk: int, a1: Real, b1: Real, a2: Real, b2: Real, v1: Real, v2: Real, v3: Real, v4: Real, w1: Real, w2: Real, w3: Real, w4: Real) -> str:
        k = fork_int(kind, 0, 3)
        n = fork_int(n1, 1, N)
        only_shard(k * 8 + n, P)
        who = ["inner_product", "outer_product", "inner_list_product", "outer_list_product"][k]
        M1, M2 = Motor("m1"), Motor("m2")
        with symnp.installed(pp, bu):
            if k == 0:
                two = fork_int(nm, 1, 2) == 2
                cyc = pp.inner_product(n, [M1, a1, b1] + ([M2, a2, b2] if two else []))
                ref = [dict(m1=lin(a1, b1, n, i), **({"m2": lin(a2, b2, n, i)} if two else {})) for i in range(n)]
            elif k == 2:
                two = fork_int(nm, 1, 2) == 2
                l1, l2 = [v1, v2, v3, v4][:n], [w1, w2, w3, w4][:n]
                cyc = pp.inner_list_product([M1, l1] + ([M2, l2] if two else []))
                ref = [dict(m1=l1[i], **({"m2": l2[i]} if two else {})) for i in range(n)]
            else:
                nn2 = fork_int(n2, 1, N)
                snaked = fork_bool(snk != 0)
                if k == 1:
                    cyc = pp.outer_product([M1, a1, b1, n, M2, a2, b2, nn2, snaked])
                    slow, fast = [lin(a1, b1, n, i) for i in range(n)], [lin(a2, b2, nn2, j) for j in range(nn2)]
                else:
                    slow, fast = [v1, v2, v3, v4][:n], [w1, w2, w3, w4][:nn2]
                    cyc = pp.outer_list_product([M1, slow, M2, fast], [M2] if snaked else False)
                ref = []
                for i in range(n):
                    row = fast[::-1] if (snaked and i % 2 == 1) else fast
                    ref += [dict(m1=slow[i], m2=x) for x in row]
                if snaked and n >= 2 and nn2 >= 2:
                    goal("snaked-grid")
            pts = [{m.name: v for m, v in pt.items()} for pt in cyc]
        if len(pts) != len(ref):
            return f"{who}:wrong-number-of-points"
        if len(ref) >= 3:
            goal("three-or-more-points")
        for got, want in zip(pts, ref):
            if set(got.keys()) != set(want.keys()):
                return f"{who}:wrong-motors"
            for mn, x in want.items():
                if got[mn] != x:
                    return f"{who}:point-differs-from-the-documented-trajectory"
        return ""

    return h


def make_step(P):
    import bluesky.plan_stubs as bps

    symnp.selftest()

    def h(p1: Real, p2: Real, c1: Real, c2: Real, has1: bool, has2: bool, two: bool) -> str:
        M1, M2 = Motor("m1"), Motor("m2")
        motors = [M1, M2] if fork_bool(two) else [M1]
        step = dict(zip(motors, [p1, p2]))
        cache = {M1: c1 if fork_bool(has1) else None, M2: c2 if fork_bool(has2) else None}
        before = dict(cache)
        with symnp.installed(bps):
            msgs = list(bps.move_per_step(step, cache))
        if not msgs or msgs[0].command != "checkpoint":
            return "move_per_step:no-checkpoint-before-the-point"
        if msgs[-1].command != "wait":
            return "move_per_step:no-wait-after-the-sets"
        sets = {m.obj: m.args[0] for m in msgs if m.command == "set"}
        for mot in motors:
            already = before[mot] is not None and before[mot] == step[mot]
            if already:
                goal("already-there")
                if mot in sets:
                    return "move_per_step:redundant-set"  # harmless for the trajectory, but not what the cache is for
            else:
                goal("moved")
                if mot not in sets:
                    return "move_per_step:motor-not-sent-to-the-point-although-it-is-elsewhere"
                if sets[mot] != step[mot]:
                    return "move_per_step:set-to-a-different-position"
            if cache[mot] != step[mot]:
                return "move_per_step:position-cache-not-updated"
        if any(m.obj not in motors for m in msgs if m.command == "set"):
            return "move_per_step:set-on-a-motor-that-is-not-part-of-the-step"
        return ""

    return h


def _fns_s():
    import bluesky.plan_stubs as bps

    return [bps.move_per_step]


register(Harness("c25_step", "C25", make_step, {"quick": dict(shards=1, budget_s=120, per_path_s=30), "thorough": dict(shards=1, budget_s=600, per_path_s=60)},
                 goals=["already-there", "moved"], functions=_fns_s, mode="traced", float_model="real", opaque_text=True,
                 symbolic="one or two motors; the requested positions and the cached last-set positions are symbolic reals; each cache entry present or None",
                 out_of_bound="non-numeric positions (strings, pseudo-positioner tuples)", stubs="numpy (if plan_stubs uses it) replaced by vlib/symnp.py", require_exhaustive=True))


def _fns_p():
    import bluesky.plan_patterns as pp

    return [pp.inner_product, pp.outer_product, pp.inner_list_product, pp.outer_list_product]


register(Harness("c25_patterns", "C25", make_patterns, {"quick": dict(N=3, shards=8, budget_s=300, per_path_s=60), "thorough": dict(N=4, shards=16, budget_s=2000, per_path_s=120)},
                 goals=["three-or-more-points", "snaked-grid"], functions=_fns_p, mode="traced", float_model="real", opaque_text=True,
                 symbolic="pattern in {inner_product, outer_product, inner_list_product, outer_list_product}; 1-2 motors; point counts in [1,N] per axis; snaking on/off; every start, stop and list entry a symbolic real",
                 out_of_bound="logspace (log_scan: transcendental, not encodable over reals); more than 2 motors or N points per axis; floating-point rounding (positions are exact reals)",
                 stubs="numpy replaced by vlib/symnp.py (linspace, prod, repeat, tile, concatenate), validated against numpy on concrete samples each run", require_exhaustive=True))
register(Harness("c25_plans", "C25", make, {"quick": dict(N=3, lv=1, shards=32, budget_s=400, per_path_s=60), "thorough": dict(N=3, lv=3, shards=56, budget_s=3000, per_path_s=120)},
                 goals=["three-or-more-points", "snaked-grid"], functions=_fns, mode="schedule",
                 symbolic="plan in {scan, inner_product_scan, list_scan, grid_scan, list_grid_scan, scan_nd (sum and product cyclers), x2x_scan}; 1-2 motors; point counts in [1,N] per axis; "
                 "snake_axes in {None, False, True, [m2]}; every start, stop and list entry one of the exactly representable values {0, 1, -1, 2} (repeated positions included)",
                 out_of_bound="log_scan; values other than the four (the plans only forward them to plan_patterns, whose arithmetic c25_patterns covers for all reals); custom per_step",
                 stubs="a message consumer stands in for the RunEngine (C01-C13 cover the engine)", require_exhaustive=True))
