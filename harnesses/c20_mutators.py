"""C20 -- plan_mutator / msg_mutator are transparent when the processor changes nothing.

For every program of the generator grammar (vlib/genlab.py) and every driver script, the full observable trace of
``wrap(gen(prog))`` is compared with that of ``gen(prog)``: messages, responses delivered (symbolic values),
exceptions seen by the plan's handlers, ``finally`` executions, return value, raised exception, close behaviour.
"""
from vlib import genlab
from vlib.harness import Harness, register
from vlib.symx import fork_int, goal, only_shard


def _kind(t, i):
    return t[i][0] if i < len(t) else "missing"


def _make(wrapper_name):
    def make(P):
        import bluesky.preprocessors as bpp

        L, S = P["L"], P["S"]
        if wrapper_name == "plan_mutator":
            wrap = lambda g: bpp.plan_mutator(g, lambda msg: (None, None))  # noqa: E731
        else:
            wrap = lambda g: bpp.msg_mutator(g, lambda msg: msg)  # noqa: E731

        def h(c1: int, c2: int, c3: int, c4: int, c5: int, c6: int, a1: int, a2: int, a3: int, a4: int, a5: int, a6: int,
              v1: int, v2: int, v3: int, v4: int, v5: int, v6: int) -> str:
            code = [c1, c2, c3, c4, c5, c6][:L]
            script = [a1, a2, a3, a4, a5, a6][:S]
            vals = [v1, v2, v3, v4, v5, v6]
            OPS = genlab.RICH_OPS
            only_shard(fork_int(c1, 0, len(OPS) - 1), P)
            log0, log1 = [], []
            t0 = genlab.drive(genlab.interp(code, log0, ops=OPS), script, vals)
            t1 = genlab.drive(wrap(genlab.interp(code, log1, ops=OPS)), script, vals)
            for e in t0:
                if e[0] in ("closed-ok", "script-end-close"):
                    goal("closed")
                if e[0] == "raised":
                    goal("raised")
                if e[0] == "return":
                    goal("returned")
            for e in log0:
                if e[0] == "finally":
                    goal("finally-ran")
                if e[0] == "caught":
                    goal("handler-ran")
            tags = []
            i = genlab.first_diff(t0, t1)
            if i >= 0:
                tags.append(f"{wrapper_name}:trace-differs:{_kind(t0, i)}-vs-{_kind(t1, i)}")
            j = genlab.first_diff(log0, log1)
            if j >= 0:
                tags.append(f"{wrapper_name}:plan-side-log-differs:{_kind(log0, j)}-vs-{_kind(log1, j)}")
            return ";".join(tags)

        return h

    return make


def _fns():
    import bluesky.preprocessors as bpp

    return [bpp.plan_mutator, bpp.msg_mutator]


_SYM = ("program: L opcodes each in {yield, raise, return, yield-from sub-block, try/finally with a yield in finally, try/except with a "
        "yield in the handler, end-of-block, try-block translating a thrown exception, try-block that catches and returns without yielding}, nesting depth <= 2; script: S driver actions each in {send symbolic int, throw Boom, "
        "throw RequestStop, close}; responses are arbitrary (symbolic) integers")
_OUT = "programs longer than L / scripts longer than S; BaseException subclasses other than GeneratorExit thrown by the driver; processors that change messages (C21)"
_T = {"quick": dict(L=3, S=3, shards=9, budget_s=240, per_path_s=20), "thorough": dict(L=5, S=5, shards=9, budget_s=3000, per_path_s=30)}
for _w in ("plan_mutator", "msg_mutator"):
    register(Harness(f"c20_{_w}", "C20", _make(_w), _T, goals=["closed", "raised", "returned", "finally-ran", "handler-ran"], functions=_fns,
                     symbolic=_SYM, out_of_bound=_OUT, require_exhaustive=True))
