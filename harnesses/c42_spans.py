"""C42 -- each run's trace span ends once with that run's outcome (RE-lab sweep with a recording tracer)."""
from vlib import oracles, reharness
from vlib.harness import Harness, register
from harnesses.c01_documents import OUT, STUBS, _fns

PLANS_Q = ["interleaved", "nested_runs", "scan2", "two_runs_cleared"]
PLANS_T = PLANS_Q + ["bare", "cleanup", "count2", "staged_monitor"]
SYM = "plan index (nested and interleaved run keys, consecutive runs), loop step k1 of pause / abort / stop / halt / suspension, decision after a pause, optional device fault"
register(Harness("c42_sweep", "C42", lambda P: reharness.make_sweep(P, oracles.c42_spans, plans=PLANS_Q if P["tier"] == "quick" else PLANS_T,
                                                                     kinds=["pause", "abort", "stop", "halt", "suspend"], extra=dict(setup=oracles.install_tracer)),
                 {"quick": dict(shards=16, budget_s=300, per_path_s=30), "thorough": dict(shards=32, budget_s=3000, per_path_s=30)},
                 goals=["paused", "resumed", "interrupted"], functions=_fns, mode="schedule", symbolic=SYM, out_of_bound=OUT,
                 stubs=STUBS + ["recording tracer bound to bluesky.run_engine.tracer (start_span -> object with set_attribute/end)"], require_exhaustive=True))
register(Harness("c42_faults", "C42", lambda P: reharness.make_sweep(P, oracles.c42_spans, plans=["interleaved", "scan2", "retry_close"] if P["tier"] == "quick" else PLANS_T + ["retry_close"],
                                                                      kinds=["pause"], decisions=["resume"], faults=True, extra=dict(setup=oracles.install_tracer)),
                 {"quick": dict(shards=16, budget_s=300, per_path_s=30), "thorough": dict(shards=48, budget_s=3000, per_path_s=30)},
                 goals=["device-failure-surfaced"], functions=_fns, mode="schedule", symbolic=SYM, out_of_bound=OUT, stubs=STUBS, require_exhaustive=True))
