"""C26 -- snaked grids are a continuous back-and-forth ordering of the full grid.

The real ``snake_cyclers`` / ``outer_list_product`` run with symbolic axis lengths, snake flags and symbolic
(arbitrary integer) axis values; numpy is replaced by ``symnp``.  The reference is the statement: point ``t`` has,
on axis ``i``, index ``pos`` of pass ``pass_no`` where ``block = t // prod(len[i+1:])``, ``pos = block % len_i``,
``pass_no = block // len_i`` (the number of times a slower axis has advanced) and a snaked axis runs backwards on
odd passes.
"""
from typing import List

from vlib import symnp
from vlib.harness import Harness, register
from vlib.symx import HarnessError, assume, fork_bool, fork_int, goal

MAXAX = 4
MAXLEN = 4


def _reference(lengths, snake):
    """Index tuples of the documented ordering (pure Python, concrete)."""
    total = 1
    for n in lengths:
        total *= n
    pts = []
    for t in range(total):
        idx = []
        for i, n in enumerate(lengths):
            rep = 1
            for m in lengths[i + 1 :]:
                rep *= m
            block = t // rep
            pos, pass_no = block % n, block // n
            if snake[i] and i > 0 and pass_no % 2 == 1:
                pos = n - 1 - pos
            idx.append(pos)
        pts.append(tuple(idx))
    # sanity of the reference itself (harness error, not a finding): permutation + continuity of snaked axes
    if len(set(pts)) != total:
        raise HarnessError("reference is not a permutation")
    for a, b in zip(pts, pts[1:]):
        changed = [i for i in range(len(lengths)) if a[i] != b[i]]
        slow = changed[0]
        for i in changed[1:]:
            if snake[i]:
                raise HarnessError("reference: snaked axis jumped")
        for i in range(slow):
            if a[i] != b[i]:
                raise HarnessError("reference: slower axis moved")
    return pts


def _shape(nax, ls, ss, P):
    lengths, snake = [], []
    nax = fork_int(nax, 1, P["maxax"])
    for i in range(nax):
        lengths.append(fork_int(ls[i], 1, P["maxlen"]))
        snake.append(fork_bool(ss[i]))
    return nax, lengths, snake


def _compare(cyc, keys, lengths, snake, vals, who):
    ref = _reference(lengths, snake)
    got = list(cyc)
    if len(got) != len(ref):
        return f"{who}:wrong-number-of-points"
    if any(snake[1:]) and any(n > 1 for n in lengths[:-1]):
        goal("snaked")
    if len(lengths) >= 2:
        goal("multi-axis")
    for t, (pt, idx) in enumerate(zip(got, ref)):
        if set(pt.keys()) != set(keys):
            return f"{who}:wrong-keys"
        for i, k in enumerate(keys):
            if pt[k] != vals[i][idx[i]]:
                return f"{who}:point-differs-from-documented-order"
    return ""


def make_snake(P):
    import bluesky.utils as bu
    from cycler import cycler

    symnp.selftest()

    def h(nax: int, l1: int, l2: int, l3: int, l4: int, s1: bool, s2: bool, s3: bool, s4: bool, v: List[int]) -> str:
        assume(len(v) == MAXAX * MAXLEN)
        nax, lengths, snake = _shape(nax, [l1, l2, l3, l4], [s1, s2, s3, s4], P)
        assume((l1 * 7 + l2) % P["nshards"] == P["shard"])
        keys = [f"k{i}" for i in range(nax)]
        vals = [[v[i * MAXLEN + j] for j in range(lengths[i])] for i in range(nax)]
        with symnp.installed(bu):
            cyc = bu.snake_cyclers([cycler(k, list(x)) for k, x in zip(keys, vals)], snake)
        return _compare(cyc, keys, lengths, snake, vals, "snake_cyclers")

    return h


def make_outer(P):
    import bluesky.plan_patterns as pp
    import bluesky.utils as bu

    symnp.selftest()

    def h(nax: int, l1: int, l2: int, l3: int, l4: int, mode: int, s1: bool, s2: bool, s3: bool, s4: bool, v: List[int]) -> str:
        assume(len(v) == MAXAX * MAXLEN)
        assume(0 <= mode <= 2)
        nax, lengths, snake = _shape(nax, [l1, l2, l3, l4], [s1, s2, s3, s4], P)
        assume((l1 * 7 + l2) % P["nshards"] == P["shard"])
        keys = [f"m{i}" for i in range(nax)]
        vals = [[v[i * MAXLEN + j] for j in range(lengths[i])] for i in range(nax)]
        args = []
        for k, x in zip(keys, vals):
            args += [k, list(x)]
        mode = fork_int(mode, 0, 2)
        if mode == 0:
            snake_axes, snake = False, [False] * nax
        elif mode == 1:
            snake_axes, snake = True, [False] + [True] * (nax - 1)
        else:
            snake_axes = [k for k, s in zip(keys, snake) if s]
            if not snake_axes:
                snake = [False] * nax
        with symnp.installed(bu, pp):
            cyc = pp.outer_list_product(args, snake_axes)
        return _compare(cyc, keys, lengths, snake, vals, "outer_list_product")

    return h


def _fns():
    import bluesky.plan_patterns as pp
    import bluesky.utils as bu

    return [bu.snake_cyclers, pp.outer_list_product]


_STUBS = ["numpy replaced by vlib/symnp.py (prod, array, concatenate, repeat, tile, slicing), validated against numpy on concrete samples each run"]
_T = {"quick": dict(maxax=3, maxlen=3, shards=4, budget_s=120, per_path_s=30), "thorough": dict(maxax=4, maxlen=4, shards=16, budget_s=1500, per_path_s=60)}
register(Harness("c26_snake", "C26", make_snake, _T, goals=["snaked", "multi-axis"], functions=_fns,
                 symbolic="number of axes <= maxax, each length in [1,maxlen], one snake flag per axis, every axis value an arbitrary integer",
                 out_of_bound="more axes / longer axes than the bound; non-integer axis values (the code never inspects values)", stubs=_STUBS,
                 require_exhaustive=True))
register(Harness("c26_outer", "C26", make_outer, _T, goals=["snaked", "multi-axis"], functions=_fns,
                 symbolic="as c26_snake, plus snake_axes in {False, True, list of motors}", out_of_bound="as c26_snake", stubs=_STUBS,
                 require_exhaustive=True))
