"""C18 -- subscriptions live exactly as long as they were asked to (Dispatcher level).

A symbolic history of subscribe / unsubscribe operations is applied to the real ``Dispatcher``
(``CallbackRegistry`` + ``_BoundMethodProxy`` underneath); after every operation two documents are dispatched and
the deliveries are compared with a reference: a callable with at least one live token whose filter matches the
document kind receives the document (once per live token at most, at least once); a callable with no live matching
token receives nothing.  Callables: two plain functions and one bound method, so repeats are forced.
"""
from vlib.harness import Harness, register
from vlib.symx import fork_int, goal, notrace, only_shard

NOPS = 6


class _Obj:
    def __init__(self, log):
        self.log = log

    def meth(self, name, doc):
        self.log.append(("m", name))


def make(P):
    from bluesky.run_engine import Dispatcher
    from event_model import DocumentNames

    L = P["nops"]

    def h(o1: int, o2: int, o3: int, o4: int, o5: int, o6: int, a1: int, a2: int, a3: int, a4: int, a5: int, a6: int) -> str:
        ops = [o1, o2, o3, o4, o5, o6][:L]
        args = [a1, a2, a3, a4, a5, a6][:L]
        # fork the whole history to concrete values (solver-decided), then run it natively
        hist = []
        nissued = 0
        for i in range(L):
            op = fork_int(ops[i], 0, 4)
            if op <= 2:
                hist.append((op, fork_int(args[i], 0, 1)))
                nissued += 1
            elif op == 3:
                hist.append((op, fork_int(args[i], 0, nissued - 1) if nissued else 0))
            else:
                hist.append((op, 0))
            if i == 1:
                only_shard(hist[0][0] * 2 + hist[0][1] + 10 * (hist[1][0] * 2 + hist[1][1] % 2), P)
        with notrace():
            return run_history(hist)

    def run_history(hist):
        log = []
        obj = _Obj(log)

        def f0(name, doc):
            log.append(("f0", name))

        def f1(name, doc):
            log.append(("f1", name))

        cbs = {"f0": f0, "f1": f1}
        d = Dispatcher()
        live = {}  # token -> (callable id, filter)
        issued = []
        for op, arg in hist:
            if op <= 2:
                who = ("f0", "f1", "m")[op]
                filt = "all" if arg == 0 else "event"
                tok = d.subscribe(cbs[who] if who != "m" else obj.meth, filt)
                if tok in live or tok in issued:
                    return "subscribe:token-reused"
                live[tok] = (who, filt)
                issued.append(tok)
                if sum(1 for w, _ in live.values() if w == who) >= 2:
                    goal("same-callable-twice")
            elif op == 3:
                if not issued:
                    continue
                d.unsubscribe(issued[arg])
                if issued[arg] not in live:
                    goal("double-unsubscribe")
                live.pop(issued[arg], None)
                goal("unsubscribed")
            else:
                d.unsubscribe_all()
                live.clear()
            # dispatch and compare
            for kind in ("start", "event"):
                del log[:]
                d.process(DocumentNames[kind], {"k": kind})
                for who in ("f0", "f1", "m"):
                    n = sum(1 for w, nm in log if w == who)
                    if any(nm != kind for w, nm in log):
                        return "process:wrong-document-name"
                    nlive = sum(1 for w, f in live.values() if w == who and (f == "all" or f == kind))
                    if nlive == 0 and n != 0:
                        return "unsubscribed-callback-still-receives"
                    if nlive > 0 and n == 0:
                        return "live-subscription-silenced-by-unsubscribing-another-token"
                    if n > nlive:
                        return "callback-receives-more-than-once-per-live-token"
        return ""

    return h


def _fns():
    import bluesky.utils as bu
    from bluesky.run_engine import Dispatcher

    return [Dispatcher.subscribe, Dispatcher.unsubscribe, Dispatcher.unsubscribe_all, Dispatcher.process,
            bu.CallbackRegistry.connect, bu.CallbackRegistry.disconnect, bu.CallbackRegistry.process, bu._BoundMethodProxy.__eq__]


register(Harness("c18_dispatcher", "C18", make,
                 {"quick": dict(nops=4, shards=8, budget_s=120, per_path_s=20), "thorough": dict(nops=6, shards=16, budget_s=2400, per_path_s=30)},
                 goals=["same-callable-twice", "unsubscribed", "double-unsubscribe"], functions=_fns,
                 symbolic="history of nops operations, each in {subscribe f0, subscribe f1, subscribe bound method (filter all|event), "
                 "unsubscribe any issued token (live or dead), unsubscribe_all}; deliveries checked after every operation",
                 out_of_bound="histories longer than nops; per-call / in-plan subscriptions (covered by the RE-lab harness c18_re); garbage-collected bound methods",
                 require_exhaustive=True, mode="schedule"))
