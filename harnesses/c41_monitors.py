"""C41 -- monitors report only while their run is open and running (RE-lab sweep with signal updates at symbolic steps)."""
from vlib import oracles, reharness
from vlib.harness import Harness, register
from harnesses.c01_documents import OUT, STUBS, _fns

PLANS = ["monitor_mid", "monitor_meta", "staged_monitor", "flymon"]


def _poke(lab):
    lab.poke_on_stop = True

SYM = ("plan index (monitor/unmonitor in mid-run, monitor_during wrapper, monitor closed by the engine), loop step k1 of a pause (resumed) / suspension / abort, "
       "signal updates pushed at loop steps u1 (and u2) in [0,T+2] -- also while paused, suspended, after unmonitor and after the run")
register(Harness("c41_updates", "C41", lambda P: reharness.make_sweep(P, oracles.c41_monitors, plans=PLANS[:3] if P["tier"] == "quick" else PLANS, extra=dict(setup=_poke),
                                                                       kinds=["pause", "suspend"] if P["tier"] == "quick" else ["pause", "suspend", "abort"],
                                                                       decisions=["resume"], updates=1 if P["tier"] == "quick" else 2),
                 {"quick": dict(shards=32, budget_s=300, per_path_s=30), "thorough": dict(shards=96, budget_s=3000, per_path_s=30)},
                 goals=["paused", "resumed", "suspended"], functions=_fns, mode="schedule", symbolic=SYM, out_of_bound=OUT, stubs=STUBS, require_exhaustive=True))
