"""C29 -- adaptive and tuning scans terminate and stay within their range.

The real ``adaptive_scan`` and ``tune_centroid`` run symbolically (numpy replaced by ``symnp``); a message consumer
plays the engine and answers every detector read with the next entry of a tape of symbolic reals -- an arbitrary
response, not a function of position -- for up to K readings.

adaptive_scan (start = 0 by translation invariance; direction, backstep by fork; stop, min_step, max_step,
target_delta, threshold in (0, 0.999] symbolic): every visited position lies in [start, stop) in scan direction; no two
consecutive readings are taken at the same position (no stall -- with C29's "terminates" in mind: a backstep must
come with a strictly smaller step); with backstep off every reading advances by at least min(min_step, first step),
so a range shorter than two such advances must be finished after three readings.

tune_centroid (start = 0, stop = +-1 by affine invariance; num in {2,3}, step_factor in {2,3}, snake by fork;
min_step symbolic, signals symbolic and non-negative): every visited position and the final parking position lie
within [min(start, stop), max(start, stop)]; each pass has exactly num readings; the pass width shrinks at least by
step_factor from pass to pass (the ranking argument for termination, checked pass by pass within K readings); when
min_step admits only one pass the plan must end after it.
"""
from vlib import symnp
from vlib.harness import Harness, register
from vlib.symx import Real, assume, fork_bool, fork_int, goal, only_shard


class Motor:
    parent = None
    name = "motor"
    hints = {"fields": ["motor"]}

    def set(self, v):
        return None

    def read(self):
        return {}

    def describe(self):
        return {"motor": {"source": "m", "dtype": "number", "shape": []}}

    def __repr__(self):
        return "motor"


class Det:
    parent = None
    name = "det"
    hints = {"fields": ["det"]}

    def trigger(self):
        return None

    def read(self):
        return {}

    def describe(self):
        return {"det": {"source": "d", "dtype": "number", "shape": []}}

    def __repr__(self):
        return "det"


def drive(gen, tape, K, pos0=0.0):
    """Returns (positions at each reading, all set targets, finished?)."""
    pos = pos0
    visited, sets = [], []
    it = iter(tape)
    finished = False
    try:
        m = gen.send(None)
        while True:
            r = None
            c = m.command
            if c == "set":
                pos = m.args[0]
                sets.append(pos)
            elif c == "read":
                if isinstance(m.obj, Motor):
                    r = {"motor": {"value": pos, "timestamp": 0.0}}
                else:
                    r = {"det": {"value": next(it), "timestamp": 0.0}}
            elif c == "save":
                visited.append(pos)
                if len(visited) >= K:
                    gen.close()
                    return visited, sets, False
            elif c in ("stage", "unstage"):
                r = [m.obj]
            m = gen.send(r)
    except StopIteration:
        finished = True
    return visited, sets, finished


def make_adaptive(P):
    import bluesky.plan_stubs as bps
    import bluesky.plans as bp

    symnp.selftest()
    K = P["K"]

    def h(stop: Real, mn: Real, mx: Real, td: Real, thr: Real, down: bool, back: bool, r1: Real, r2: Real, r3: Real, r4: Real, r5: Real) -> str:
        sign = -1 if fork_bool(down) else 1
        bs = fork_bool(back)
        assume(mn > 0)
        assume(mx > mn)
        assume(td > 0)
        assume(thr > 0)
        assume(thr <= 0.999)  # a backstep then shrinks the step by at least 0.1 %: far above the stall tolerance below
        assume(stop * sign > 0)
        step0 = (mx - mn) / 2
        m_adv = step0 if step0 < mn else mn  # the smallest advance the algorithm can make
        short = fork_bool(stop * sign <= 2 * m_adv)
        big = fork_bool(r2 - r1 > td) if True else False  # an extra early split, only to spread the work over more shards
        only_shard((1 if sign < 0 else 0) + 2 * (1 if bs else 0) + 4 * (1 if step0 < mn else 0) + 8 * (1 if short else 0) + 16 * (1 if big else 0), P)
        with symnp.installed(bp, bps):
            gen = bp.adaptive_scan([Det()], "det", Motor(), 0.0, stop, mn, mx, td, bs, thr)
            visited, sets, finished = drive(gen, [r1, r2, r3, r4, r5], K)
        tags = []
        for p in visited:
            if not (p * sign >= 0):
                tags.append("adaptive_scan:position-before-start")
            if not (p * sign < stop * sign):
                tags.append("adaptive_scan:position-at-or-beyond-stop")
        for a, b in zip(visited, visited[1:]):
            if abs(b - a) * 1e9 <= m_adv:  # less than a billionth of the smallest advance: the same position up to float rounding
                tags.append("adaptive_scan:consecutive-readings-at-the-same-position")
        if len(visited) >= 3:
            goal("three-readings")
        if finished:
            goal("finished")
        if not bs:
            for a, b in zip(visited, visited[1:]):
                if not ((b - a) * sign >= m_adv):
                    tags.append("adaptive_scan:advance-smaller-than-the-minimum-step-without-backstep")
            if short and not finished and len(visited) >= 3:
                tags.append("adaptive_scan:did-not-finish-a-range-shorter-than-two-minimum-advances")
        elif any((b - a) * sign < 0 for a, b in zip(visited, visited[1:])):
            goal("stepped-back")
        return ";".join(sorted(set(tags)))

    return h


def make_tune(P):
    import bluesky.plan_stubs as bps
    import bluesky.plans as bp

    symnp.selftest()
    K = P["K"]

    def h(ms: Real, down: bool, num: int, sf: int, snake: bool, r1: Real, r2: Real, r3: Real, r4: Real, r5: Real, r6: Real, r7: Real) -> str:
        stop = -1.0 if fork_bool(down) else 1.0
        n = fork_int(num, 2, 3)
        f = float(fork_int(sf, 2, 3))
        sn = fork_bool(snake)
        only_shard((1 if stop < 0 else 0) + 2 * n + 8 * (1 if sn else 0) + 16 * int(f), P)
        tape = [r1, r2, r3, r4, r5, r6, r7]
        for r in tape:
            assume(r >= 0)
        assume(ms > 0)
        step1 = 1.0 / (n - 1)
        one_pass = fork_bool(ms > step1 / f)  # the second pass (width <= 1/f) would already step below min_step
        lo, hi = min(0.0, stop), max(0.0, stop)
        with symnp.installed(bp, bps):
            gen = bp.tune_centroid([Det()], "det", Motor(), 0.0, stop, ms, n, f, sn)
            visited, sets, finished = drive(gen, tape, K)
        tags = []
        for p in sets:
            if not (lo <= p <= hi):
                tags.append("tune_centroid:motor-sent-outside-the-range")
        if finished:
            goal("finished")
            if len(sets) > len(visited):
                goal("parked")
        if len(visited) > n:
            goal("second-pass")
        # passes: consecutive groups of n readings; widths must shrink by the step factor
        passes = [visited[i:i + n] for i in range(0, len(visited), n)]
        widths = [abs(p[-1] - p[0]) for p in passes if len(p) == n]
        for w0, w1 in zip(widths, widths[1:]):
            if not (w1 * f <= w0):
                tags.append("tune_centroid:pass-did-not-shrink-by-the-step-factor")
        if ms <= step1:
            if one_pass and not finished and len(visited) > n:
                tags.append("tune_centroid:kept-scanning-although-the-next-step-is-below-min_step")
        elif visited:
            tags.append("tune_centroid:scanned-although-the-first-step-is-below-min_step")
        return ";".join(sorted(set(tags)))

    return h


def _fa():
    import bluesky.plans as bp

    return [bp.adaptive_scan]


def _ft():
    import bluesky.plans as bp

    return [bp.tune_centroid]


_ST = "numpy replaced by vlib/symnp.py (abs, clip, min; validated against numpy each run); a message consumer stands in for the RunEngine; detector readings come from a tape of symbolic reals"
register(Harness("c29_adaptive", "C29", make_adaptive, {"quick": dict(K=4, shards=32, budget_s=400, per_path_s=60), "thorough": dict(K=4, shards=32, budget_s=3000, per_path_s=120)},
                 goals=["three-readings", "finished"], functions=_fa, mode="traced", float_model="real", opaque_text=True,
                 symbolic="stop, min_step, max_step, target_delta, threshold in (0, 0.999]: symbolic reals (start = 0); direction and backstep by fork; the first K detector readings: arbitrary symbolic reals",
                 out_of_bound="more than K readings per scan (termination is checked as: no stall, and with backstep off a minimum advance per reading); threshold above 0.999 (a backstep then never shrinks the step: outside the documented use); NaN/inf readings and float rounding (exact reals)",
                 stubs=_ST, require_exhaustive=True))
register(Harness("c29_tune", "C29", make_tune, {"quick": dict(K=5, shards=16, budget_s=400, per_path_s=60), "thorough": dict(K=6, shards=16, budget_s=3000, per_path_s=120)},
                 goals=["finished", "second-pass", "parked"], functions=_ft, mode="traced", float_model="real", opaque_text=True,
                 symbolic="min_step: symbolic real; start = 0, stop = +-1 (affine invariance of the position axis); num in {2,3}; step_factor in {2,3}; snake on/off; the first K signals: arbitrary non-negative symbolic reals",
                 out_of_bound="more than K readings (termination is checked as: each pass is at least step_factor times narrower than the one before, and a single-pass configuration ends after its pass); negative signals; num > 3; NaN/inf and float rounding",
                 stubs=_ST, require_exhaustive=True))
