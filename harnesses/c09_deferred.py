"""C09 -- a deferred pause takes effect exactly at the next checkpoint (RE-lab sweep)."""
from vlib import oracles, reharness
from vlib.harness import Harness, register
from harnesses.c01_documents import OUT, STUBS, _fns

PLANS_Q = ["sparse", "bare", "scan2", "count2", "nested_runs"]
PLANS_T = PLANS_Q + ["grid2x2", "staged_monitor", "declared", "norewind_section", "count_norewind", "adaptive"]
SYM = "plan index (checkpoints at varying spacing, inside non-rewindable regions, and tails without checkpoints), loop step k1 in [0,T+3] of a deferred pause request, resume afterwards"
register(Harness("c09_defer", "C09", lambda P: reharness.make_sweep(P, oracles.c09_deferred, plans=PLANS_Q if P["tier"] == "quick" else PLANS_T,
                                                                     kinds=["defer"], decisions=["resume"]),
                 {"quick": dict(shards=16, budget_s=300, per_path_s=30), "thorough": dict(shards=32, budget_s=3000, per_path_s=30)},
                 goals=["paused", "resumed", "request-after-last-message"], functions=_fns, mode="schedule", symbolic=SYM, out_of_bound=OUT, stubs=STUBS,
                 require_exhaustive=True))
register(Harness("c09_defer_two", "C09", lambda P: reharness.make_sweep(P, oracles.c09_deferred, plans=["sparse", "bare"] if P["tier"] == "quick" else PLANS_T,
                                                                         kinds=["defer"], kinds2=["defer", "suspend", "pause"], decisions=["resume"], two=True),
                 {"quick": dict(shards=16, window=6, budget_s=300, per_path_s=30), "thorough": dict(shards=48, window=12, budget_s=3000, per_path_s=30)},
                 goals=["paused", "resumed"], functions=_fns, mode="schedule", symbolic=SYM + "; plus a second request of any kind within `window` steps",
                 out_of_bound=OUT, stubs=STUBS, require_exhaustive=True))
