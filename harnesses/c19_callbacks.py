"""C19 -- callbacks see every document once, in order, and errors follow policy (RE-lab, symbolic raising point)."""
import functools

from vlib import corpus, sweep
from vlib.harness import Harness, register
from vlib.symx import fork_bool, fork_int, fork_range, goal, notrace, only_shard
from harnesses.c01_documents import OUT, STUBS, _fns

PLANS = ["scan2", "nested_runs", "flymon", "count2"]
FILTERS = ["all", "event", "start", "stop", "descriptor"]


class CallbackBoom(Exception):
    pass


class Obj:
    """A callable object (no __qualname__ on the instance)."""

    def __init__(self, fn):
        self.fn = fn

    def __call__(self, name, doc):
        return self.fn(name, doc)


def make(P):
    _N = {}

    def ndocs(plan):
        if plan not in _N:
            _N[plan] = len(sweep.run_case(corpus.CORPUS[plan], (), followup=False).docs)
        return _N[plan]

    def h(plan: int, f1: int, f2: int, f3: int, who: int, at: int, ignore: bool, kind: int, pause_at: int) -> str:
        plans = PLANS[: P["nplans"]]
        FL = FILTERS[: P["nfilt"]]
        pi = fork_int(plan, 0, len(plans) - 1)
        filt = [FL[fork_int(f, 0, len(FL) - 1)] for f in (f1, f2)] + ["all"]
        w = fork_int(who, 0, 3)  # which callback raises (3: none)
        ign = fork_bool(ignore)
        only_shard(pi + 4 * w + 16 * ign + 32 * FILTERS.index(filt[0]) + 160 * FILTERS.index(filt[1]), P)
        kd = fork_int(kind, 0, 2) if w < 3 else 0  # raising callback is a function / callable object / functools.partial
        with notrace():
            n = ndocs(plans[pi])
        j = fork_range(at, 0, n - 1) if w < 3 else 0
        with notrace():
            logs = [[], [], []]
            order = []
            raised = []

            def mk(i):
                def cb(name, doc):
                    order.append((i, doc.get("uid") if not isinstance(doc.get("uid"), list) else tuple(doc["uid"])))
                    logs[i].append((name, doc))
                    if i == w and len(logs[i]) - 1 == j and not raised:
                        raised.append(i)
                        raise CallbackBoom(f"cb{i} at {j}")

                if i == w and kd == 1:
                    return Obj(cb)
                if i == w and kd == 2:
                    return functools.partial(lambda tag, name, doc: cb(name, doc), "x")
                return cb

            def setup(lab):
                lab.RE.ignore_callback_exceptions = ign
                for i in range(3):
                    lab.RE.subscribe(mk(i), filt[i])

            obs = sweep.run_case(corpus.CORPUS[plans[pi]], (), "resume", setup=setup, followup=False)
            master = obs.docs
            tags = []
            call = obs.calls[0]
            if raised:
                goal("callback-raised")
            if raised and not ign:
                goal("strict")
                if call["exc_type"] != "CallbackBoom":
                    tags.append(f"strict-policy:call-ended-with-{call['exc_type'] or 'normal-return'}-instead-of-the-callback's-exception")
                starts = [d["uid"] for nm, d in master if nm == "start"]
                stops = {d["run_start"]: d for nm, d in master if nm == "stop"}
                for u in starts:
                    if u not in stops:
                        tags.append("strict-policy:run-left-without-RunStop")
                raised_on = logs[w][j][0] if len(logs[w]) > j else None
                if stops and raised_on != "stop" and not any(d.get("exit_status") == "fail" for d in stops.values()):
                    tags.append("strict-policy:no-run-closed-as-failed")
            else:
                if raised:
                    goal("ignored")
                if call["outcome"] != "ret":
                    tags.append(f"{'ignore-policy' if raised else 'no-error'}:plan-did-not-complete:{call['exc_type']}")
            # delivery: every callback gets every document of its kind exactly once, in order (strict: up to the failure)
            for i in range(3):
                want = [(nm, d) for nm, d in master if filt[i] == "all" or nm == filt[i]]
                got = logs[i]
                if raised and not ign:
                    # after the failure the engine still emits the closing documents; require prefix-consistency only
                    if [id(d) for _, d in got] != [id(d) for _, d in want][: len(got)] and not set(id(d) for _, d in got) <= set(id(d) for _, d in want):
                        tags.append("callback-received-a-document-it-did-not-subscribe-to")
                    continue
                if len(got) != len(want) or any(a[1] is not b[1] for a, b in zip(got, want)):
                    if len(got) < len(want):
                        tags.append("callback-missed-a-document")
                    elif len(got) > len(want):
                        tags.append("callback-received-a-document-twice-or-unsubscribed-kind")
                    else:
                        tags.append("callback-received-documents-out-of-order")
            # subscription order per document
            by_doc = {}
            for i, u in order:
                by_doc.setdefault(u, []).append(i)
            for u, seq in by_doc.items():
                if seq != sorted(seq) and not (raised and not ign):
                    tags.append("callbacks-not-invoked-in-subscription-order")
            return ";".join(sorted(set(tags)))

    return h


register(Harness("c19_callbacks", "C19", make, {"quick": dict(nplans=2, nfilt=3, shards=32, budget_s=300, per_path_s=30), "thorough": dict(nplans=4, nfilt=5, shards=64, budget_s=3000, per_path_s=30)},
                 goals=["callback-raised", "strict", "ignored"], functions=_fns, mode="schedule",
                 symbolic="plan index; three callbacks, two with symbolic document filters in {all, event, start[, stop, descriptor]} and one on 'all'; which callback raises (or none) and at which of its "
                 "documents (every position incl. the RunStart); the raising callback is a function / callable object / functools.partial; ignore_callback_exceptions on/off",
                 out_of_bound=OUT + "; callbacks that raise more than once; interruptions (C01 covers the document stream under interruptions)", stubs=STUBS, require_exhaustive=True))
