"""C11 -- suspension holds the plan until release, then runs the post-plan and rewinds (RE-lab sweep)."""
from vlib import oracles, reharness
from vlib.harness import Harness, register
from harnesses.c01_documents import OUT, STUBS, _fns

PLANS_Q = ["scan2", "bare", "late_wait", "nested_runs"]
PLANS_T = PLANS_Q + ["count2", "grid2x2", "staged_monitor", "flymon", "sparse", "norewind_section"]


def _prepost():
    from bluesky.utils import Msg

    return dict(pre_plan=[Msg("null", None, "pre")], post_plan=lambda: iter([Msg("null", None, "post")]))


def _oracle(obs, case):
    from harnesses import c04_replay

    tags = oracles.c11_suspension(obs, case)
    # "then the plan rewinds to its last checkpoint": the replay reference of C04 applied to this run
    prepost = lambda m: m.command == "null" and bool(m.args) and m.args[0] in ("pre", "post")  # noqa: E731
    tags += [t for t in c04_replay.oracle(obs, prepost) if "replay" in t or "rewindab" in t]
    # context for the known monitor-in-flight defect (C04/C41), so that it masks no other IllegalMessageSequence
    in_monitor = any(x[4] and 0 < x[1] <= len(obs.msgs) and obs.msgs[x[1] - 1].command == "monitor" for x in oracles.interruptions(obs))
    if in_monitor:
        tags = [t + "@interrupted-during-monitor" if "IllegalMessageSequence" in t else t for t in tags]
    return tags


def _setup(lab):
    lab.RE.record_interruptions = True


SYM = "plan index, loop step k1 of a 1 s suspension with pre- and post-plan (request_suspend), optionally a second overlapping suspension or pause within `window` steps; record_interruptions on"
register(Harness("c11_one", "C11", lambda P: reharness.make_sweep(P, _oracle, plans=PLANS_Q if P["tier"] == "quick" else PLANS_T, kinds=["suspend"], decisions=["resume"],
                                                                   suspend_kw=_prepost, extra=dict(setup=_setup)),
                 {"quick": dict(shards=8, budget_s=300, per_path_s=30), "thorough": dict(shards=16, budget_s=3000, per_path_s=30)},
                 goals=["suspended"], functions=_fns, mode="schedule", symbolic=SYM, out_of_bound=OUT + "; pauses inside the suspender's own pre/post plan", stubs=STUBS,
                 require_exhaustive=True))
register(Harness("c11_two", "C11", lambda P: reharness.make_sweep(P, _oracle, plans=["bare", "late_wait"] if P["tier"] == "quick" else PLANS_T, kinds=["suspend", "pause"],
                                                                   decisions=["resume"], two=True, suspend_kw=_prepost, extra=dict(setup=_setup)),
                 {"quick": dict(shards=16, window=8, budget_s=300, per_path_s=30), "thorough": dict(shards=48, window=14, budget_s=3000, per_path_s=30)},
                 goals=["suspended"], functions=_fns, mode="schedule", symbolic=SYM, out_of_bound=OUT, stubs=STUBS, require_exhaustive=True))
