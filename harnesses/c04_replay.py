"""C04 -- resuming replays exactly the work done since the last checkpoint.

Generated plans: a fixed skeleton ``open_run, checkpoint, null a, OP1, null b, OP2, null c, OP3, null d, <cleanup>``
whose OPs are symbolic opcodes over {null, checkpoint, rewindable off/on, stage/unstage, monitor/unmonitor,
subscribe/unsubscribe, run boundary, set+wait, bundle, sleep}; a pause (resumed) or a suspension lands at a symbolic
loop step.  Reference, written from the statement: at every rewind the engine must re-execute, in order and as the
very same Msg objects, exactly the messages executed since the most recent explicit or implicit checkpoint, minus
the documented non-replayable commands and minus anything executed while non-rewindable -- and nothing else that was
executed before.
"""
from collections import defaultdict

from vlib import sweep
from vlib.harness import Harness, register
from vlib.relab import Det, Motor, Signal, StatusStageDet
from vlib.symx import fork_int, fork_range, goal, notrace, only_shard
from harnesses.c01_documents import OUT, STUBS, _fns

NOT_REPLAYABLE = {"pause", "subscribe", "unsubscribe", "stage", "unstage", "monitor", "unmonitor", "open_run", "close_run", "install_suspender",
                  "remove_suspender", "_start_suspender"}
IMPLICIT = {"checkpoint", "stage", "unstage", "monitor", "unmonitor", "subscribe", "unsubscribe", "close_run"}
NOPS = 15


def build(prog):
    """prog: list of concrete opcodes -> plan factory."""

    def factory(lab):
        from bluesky.utils import Msg

        m, sig = Motor("m1", lab), Signal("sig", lab)
        det = Det("det", lab, [m])
        sdet = StatusStageDet("sdet", lab, [m])
        extra = Det("extra", lab, [m])
        devices = dict(m1=m, sig=sig, det=det, sdet=sdet, extra=extra)

        def plan():
            st = dict(staged=False, sstaged=False, mon=False, sub=None, rew=True)
            yield Msg("open_run")
            yield Msg("checkpoint")
            for i, op in enumerate(prog):
                yield Msg("null", None, "abcdefgh"[i])
                if op == 1:
                    yield Msg("checkpoint")
                elif op == 2:
                    yield Msg("rewindable", None, False)
                    st["rew"] = False
                elif op == 3:
                    yield Msg("rewindable", None, True)
                    st["rew"] = True
                elif op == 4:
                    yield Msg("unstage" if st["staged"] else "stage", det)
                    st["staged"] = not st["staged"]
                elif op == 5:
                    if st["mon"]:
                        yield Msg("unmonitor", sig)
                    else:
                        yield Msg("monitor", sig, name="sig_monitor")
                    st["mon"] = not st["mon"]
                elif op == 6:
                    if st["sub"] is None:
                        st["sub"] = yield Msg("subscribe", None, (lambda name, doc: None), "all")
                    else:
                        yield Msg("unsubscribe", None, token=st["sub"])
                        st["sub"] = None
                elif op == 7:
                    if st["mon"]:
                        yield Msg("unmonitor", sig)
                        st["mon"] = False
                    yield Msg("close_run")
                    yield Msg("null", None, "between-runs")
                    yield Msg("open_run")
                elif op == 8:
                    yield Msg("set", m, float(i + 1), group="g")
                    yield Msg("wait", None, group="g")
                elif op == 9:
                    yield Msg("create", name="primary")
                    yield Msg("read", m)
                    yield Msg("save")
                elif op == 10:
                    yield Msg("sleep", None, 0.1)
                elif op == 11:
                    yield Msg("trigger", det, group="t")
                    yield Msg("wait", None, group="t")
                elif op == 13:  # a whole non-rewindable region that is long enough for an interruption to take effect inside it
                    yield Msg("rewindable", None, False)
                    yield Msg("null", None, "x1")
                    yield Msg("sleep", None, 0.1)
                    yield Msg("null", None, "x2")
                    yield Msg("null", None, "x3")
                    yield Msg("rewindable", None, True)
                elif op == 14:  # unstage of a device this call never staged (legal: an implicit checkpoint all the same)
                    yield Msg("unstage", extra)
                elif op == 12:
                    yield Msg("unstage" if st["sstaged"] else "stage", sdet, group="s")
                    yield Msg("wait", None, group="s")
                    st["sstaged"] = not st["sstaged"]
            yield Msg("null", None, "last")
            if st["mon"]:
                yield Msg("unmonitor", sig)
            if st["staged"]:
                yield Msg("unstage", det)
            if st["sstaged"]:
                yield Msg("unstage", sdet, group="s")
                yield Msg("wait", None, group="s")
            yield Msg("close_run")

        return plan(), devices

    return factory


def expected_since(msgs, earlier_rewinds=(), problems=None):
    """Messages that a rewind after executing ``msgs`` must replay (reference from the statement).

    An earlier rewind hands everything executed since the checkpoint over to its replay, so the history restarts
    there (the replayed messages are executed, and therefore counted, again).  The suspension helper switches
    rewinding off for its own messages and must put it back the way it was: the reference restores the previous
    value itself (and reports a helper that restores something else)."""
    since, rew = [], True
    helper_opening = False
    before, pending = [], 0  # stack of rewindability values seen at each _start_suspender; restores still due
    for idx, m in enumerate(msgs):
        if idx in earlier_rewinds:
            since = []
        c = m.command
        if c == "_start_suspender":
            before.append(rew)
            helper_opening = True  # the helper's first message switches rewinding off for itself: not a restore
        elif c == "_resume_from_suspender":
            pending += 1
        if rew and c not in NOT_REPLAYABLE:
            since.append(m)
        if c in IMPLICIT:
            since = []
        elif c == "rewindable":
            new = bool(m.args[0]) if m.args and m.args[0] is not None else rew
            if helper_opening:
                helper_opening = False
            elif pending and before:
                want = before.pop()
                pending -= 1
                if new != want and problems is not None:
                    problems.append("suspension-did-not-restore-the-plan's-rewindability")
                new = want
            if new != rew:
                since = []
            rew = new
        elif c == "clear_checkpoint":
            since = []
    return since


def oracle(obs, helper_msg=lambda m: False):
    tags = []
    for c in obs.calls:
        if c["api"] in ("call", "resume") and c["outcome"] == "exc" and c["exc_type"] not in ("RunEngineInterrupted",):
            if c["exc_type"] == "TransitionError" and c["state"] == "suspending":
                tags.append("!engine-left-in-suspending-by-late-suspension")
            else:
                tags.append(f"{c['api']}-raised-{c['exc_type']}")
    if obs.stuck:
        tags.append("engine-stuck")
    msgs = obs.msgs
    HELPER = {"rewindable", "wait_for", "_resume_from_suspender", "_start_suspender"}
    rewind_at = defaultdict(int)
    for _, n in obs.rewinds:
        rewind_at[n] += 1
    stack, seen = [], set()
    for j in range(len(msgs) + 1):
        for rep in range(rewind_at.get(j, 0)):
            goal("rewound")
            # a second rewind before any further message finds the history already handed over: nothing new to replay
            exp = expected_since(msgs[:j], {n for n in rewind_at if n < j}, tags) if rep == 0 else []
            if exp:
                goal("replayed-something")
            stack.append(list(exp))  # a rewind pushes a replay plan on top of whatever is still pending
        if j == len(msgs):
            break
        m = msgs[j]
        while stack and not stack[-1]:
            stack.pop()
        if id(m) in seen:  # an already executed Msg object comes round again: it must be the next one due for replay
            if stack and stack[-1][0] is m:
                stack[-1].pop(0)
            elif any(m is x for lst in stack for x in lst):
                tags.append("replayed-in-wrong-order")
            else:
                tags.append("replayed-a-message-from-before-the-last-checkpoint-or-a-non-replayable-one")
        elif stack and m.command not in HELPER and not helper_msg(m):
            tags.append("plan-continued-before-the-replay-finished")
        seen.add(id(m))
    kw = getattr(obs, "msg_kw", None)
    if kw:
        first = {}
        for i, m in enumerate(msgs):
            if id(m) in first:
                if kw[i] != kw[first[id(m)]]:
                    tags.append("replayed-message-differs-from-the-one-executed-before")
            else:
                first[id(m)] = i
    expected_since(msgs, set(rewind_at), tags)
    while stack and not stack[-1]:
        stack.pop()
    if stack and obs.state == "idle" and obs.plan_end is not None and obs.plan_end[0] == "return":
        tags.append("did-not-replay-every-message-since-the-last-checkpoint")
    return tags


def make(P):
    from vlib import reharness

    L = P["L"]
    _T = {}

    def T_of(prog):
        key = tuple(prog)
        if key not in _T:
            _T[key] = sweep.dry_run_steps(build(prog))[0]
        return _T[key]

    def h(o1: int, o2: int, o3: int, o4: int, k1: int, r1: int, k2: int, r2: int) -> str:
        OPS = P.get("ops") or list(range(NOPS))
        prog = [OPS[fork_int(o, 0, len(OPS) - 1)] for o in [o1, o2, o3, o4][:L]]
        ri = fork_int(r1, 0, 1)
        only_shard(sum(o * NOPS**i for i, o in enumerate(prog)) * 2 + ri, P)
        with notrace():
            T = T_of(prog)
        k = fork_range(k1, 0, T + 2)
        reqs = [dict(step=k, kind=["pause", "suspend"][ri])]
        if P.get("two"):
            kk = fork_int(k2, 0, P["window"])
            r2i = fork_int(r2, 0, 2)
            if r2i < 2:
                reqs.append(dict(step=k + kk, kind=["pause", "suspend"][r2i]))
        with notrace():
            obs = sweep.run_case(build(prog), reqs, "resume")
            ctx = reharness.context(obs)
            from vlib.oracles import interruptions

            for x in interruptions(obs):
                if x[4] and 0 < x[1] <= len(obs.msgs) and obs.msgs[x[1] - 1].command == "monitor":
                    ctx = "interrupted-during-monitor"  # whichever interruption it was (first or second)
            reharness.std_goals(obs)
            tags = oracle(obs)
            return ";".join(sorted({t[1:] if t.startswith("!") else f"{t}@{ctx}" for t in tags}))

    return h


SYM = ("generated plan: L symbolic opcodes (15 kinds incl. an unstage of a device the call never staged; incl. a whole non-rewindable region with a sleep inside: null, checkpoint, rewindable off/on, stage|unstage, monitor|unmonitor, subscribe|unsubscribe, "
       "close_run+open_run, set+wait, create/read/save, sleep, trigger+wait, stage|unstage of a device whose stage() returns a Status; the two-interruption quick tier uses 6 of them) in a fixed skeleton; a pause (resumed) or 1 s suspension at loop step k1 in [0,T+2]; "
       "optionally a second interruption within `window` steps")
register(Harness("c04_replay", "C04", make, {"quick": dict(L=2, shards=32, budget_s=300, per_path_s=30), "thorough": dict(L=3, shards=96, budget_s=3000, per_path_s=30)},
                 goals=["paused", "resumed", "suspended", "rewound", "replayed-something"], functions=_fns, mode="schedule", symbolic=SYM,
                 out_of_bound=OUT + "; clear_checkpoint sections (C10); pauses inside a suspender's own pre/post plan", stubs=STUBS, require_exhaustive=True))
register(Harness("c04_replay_two", "C04", make, {"quick": dict(L=2, two=True, window=12, ops=[0, 9, 13], shards=32, budget_s=300, per_path_s=30),
                                                    "thorough": dict(L=2, two=True, window=10, shards=96, budget_s=3000, per_path_s=30)},
                 goals=["paused", "resumed", "suspended", "rewound"], functions=_fns, mode="schedule", symbolic=SYM, out_of_bound=OUT, stubs=STUBS,
                 require_exhaustive=True))
