"""C17 -- RunStart metadata merges sources with documented precedence.

Presence masks of the keys {a, plan_name, scan_id, b} in the three sources (persistent RE.md, open_run keyword
metadata of each of two runs, RE(...) keyword metadata), the normalizer and the validator are symbolic; each source
uses its own distinct values, so the winner of every key is identifiable.  The real RunEngine runs a two-run plan in
the lab (schedule mode: dictionary merging never branches on values).
"""
from vlib import sweep
from vlib.harness import Harness, register
from vlib.symx import fork_bool, fork_int, goal, notrace, only_shard
from harnesses.c01_documents import OUT, STUBS

KEYS = ["a", "plan_name", "scan_id", "b"]


class Rejected(Exception):
    pass


def _mk(mask, src, nkeys, a_none=False):
    vals = {"a": None if a_none else f"a-from-{src}", "plan_name": f"name-from-{src}", "scan_id": {"persistent": 40, "open1": 500, "open2": 600, "call": 700}.get(src, 0), "b": f"b-from-{src}"}
    return {k: vals[k] for i, k in enumerate(KEYS[:nkeys]) if (mask >> i) & 1}


def make(P):
    NK = P["nkeys"]

    def h(pm: int, o1: int, o2: int, cm: int, norm: bool, val: int, nn: int) -> str:
        top = 2**NK - 1
        pmask, m1, cmask = fork_int(pm, 0, top), fork_int(o1, 0, top), fork_int(cm, 0, top)
        m2 = fork_int(o2, 0, top) if not P.get("small_m2") else (2 if fork_bool(o2 != 0) else 0)  # quick: run 2 either supplies plan_name or nothing
        only_shard(pmask + (top + 1) * m1, P)
        use_norm = fork_bool(norm)
        none_at = fork_int(nn, 0, 2)  # 0: every value is a string; 1: the call-level 'a' is an explicit None; 2: run 1's open_run 'a' is an explicit None
        vmode = fork_int(val, 0, 2)  # 0 accept all, 1 reject run 2, 2 reject when 'a' comes from the call
        with notrace():
            persistent = _mk(pmask, "persistent", NK)
            persistent.pop("scan_id", None) if not (pmask >> 2) & 1 else None
            opens = [_mk(m1, "open1", NK, a_none=none_at == 2), _mk(m2, "open2", NK)]
            callkw = _mk(cmask, "call", NK, a_none=none_at == 1)
            seen_by_validator = []

            def validator(md):
                seen_by_validator.append(dict(md))
                if vmode == 1 and md.get("which") == 2:
                    raise Rejected("run 2 rejected")
                if vmode == 2 and md.get("a") == "a-from-call":
                    raise Rejected("a from call rejected")

            def normalizer(md):
                md = dict(md)
                md["normalized"] = True
                return md

            thrown = []

            def factory(lab):
                from bluesky.utils import Msg

                def two_runs():
                    for i in (0, 1):
                        try:
                            yield Msg("open_run", which=i + 1, **opens[i])
                        except Rejected as e:
                            thrown.append((i + 1, e))
                            continue
                        yield Msg("checkpoint")
                        yield Msg("close_run")

                return two_runs(), {}

            def setup(lab):
                lab.RE.md.update(persistent)
                lab.RE.md_validator = validator
                if use_norm:
                    lab.RE.md_normalizer = normalizer

            obs = sweep.run_case(factory, (), "resume", setup=setup, md_kw=callkw, followup=False)
            RE_md = dict(obs.lab.RE.md)
            tags = []
            call = obs.calls[0]
            if call["outcome"] != "ret":
                return f"call-ended-with-{call['exc_type']}"
            starts = [d for n, d in obs.docs if n == "start"]
            sid = persistent.get("scan_id", 0)
            exp_starts = []
            for i in (0, 1):
                sid += 1  # default source: one more than the persistent value, for every open_run that is processed
                merged = dict(persistent)
                merged["scan_id"] = sid
                merged.update({"plan_type": "generator", "plan_name": "recorder"})
                merged.update({"which": i + 1, **opens[i]})
                merged.update(callkw)
                rejected = (vmode == 1 and i == 1) or (vmode == 2 and merged.get("a") == "a-from-call")
                if rejected:
                    goal("rejected")
                    if not any(t[0] == i + 1 for t in thrown):
                        tags.append("validator-rejection-did-not-reach-the-plan-at-open_run")
                    continue
                if use_norm:
                    merged["normalized"] = True
                exp_starts.append(merged)
            if len(starts) != len(exp_starts):
                tags.append("RunStart-emitted-despite-rejecting-validator" if len(starts) > len(exp_starts) else "RunStart-missing")
                return ";".join(sorted(set(tags)))
            for st, ex in zip(starts, exp_starts):
                for k, v in ex.items():
                    if st.get(k) != v:
                        src = "scan_id" if k == "scan_id" else ("normalizer" if k == "normalized" else k)
                        tags.append(f"RunStart-{src}-does-not-follow-the-documented-precedence")
                if any((m >> 1) & 1 for m in (pmask, m1, m2)) or True:
                    goal("merged")
            if RE_md.get("scan_id") != sid:
                tags.append("persistent-scan_id-did-not-increase-by-one-per-opened-run")
            if (cmask >> 2) & 1 or (m1 >> 2) & 1:
                goal("scan_id-overridden")
            return ";".join(sorted(set(tags)))

    return h


def _fns():
    from bluesky.run_engine import RunEngine, default_scan_id_source

    return [RunEngine._open_run, default_scan_id_source, RunEngine.__call__]


register(Harness("c17_metadata", "C17", make, {"quick": dict(nkeys=3, small_m2=True, shards=32, budget_s=300, per_path_s=30), "thorough": dict(nkeys=4, small_m2=True, shards=64, budget_s=3000, per_path_s=30)},
                 goals=["merged", "rejected", "scan_id-overridden"], functions=_fns, mode="schedule",
                 symbolic="presence masks over the keys {a, plan_name, scan_id[, b]} for persistent md, the open_run metadata of run 1 and of run 2, and the RE(...) keyword metadata; "
                 "normalizer on/off; validator in {accept, reject run 2, reject when 'a' comes from the call}; optionally the call-level or run 1's open_run value of 'a' is an explicit None",
                 out_of_bound=OUT + "; custom scan_id sources; more than two runs per call; values are distinct constants per source or an explicit None", stubs=STUBS,
                 require_exhaustive=True))
