"""C07 -- lifecycle never takes an illegal transition or gets stuck (RE-lab sweep, up to two external requests)."""
from vlib import oracles, reharness
from vlib.harness import Harness, register
from harnesses.c01_documents import OUT, STUBS, SYM, _fns

PLANS_Q = ["scan2", "bare", "cleanup", "flymon", "failpause", "defer_failpause"]
PLANS_T = PLANS_Q + ["count2", "staged_monitor", "nested_runs", "grid2x2", "fly1"]

register(Harness("c07_one", "C07", lambda P: reharness.make_sweep(P, oracles.c07_lifecycle, plans=PLANS_Q if P["tier"] == "quick" else PLANS_T),
                 {"quick": dict(shards=16, budget_s=300, per_path_s=30), "thorough": dict(shards=48, budget_s=3000, per_path_s=30)},
                 goals=["paused", "resumed", "suspended", "interrupted", "request-after-last-message"], functions=_fns, mode="schedule", symbolic=SYM,
                 out_of_bound=OUT, stubs=STUBS, require_exhaustive=True))
register(Harness("c07_two", "C07", lambda P: reharness.make_sweep(P, oracles.c07_lifecycle, plans=["bare", "cleanup"] if P["tier"] == "quick" else PLANS_T,
                                                                   decisions=["resume"] if P["tier"] == "quick" else reharness.DECISIONS, two=True),
                 {"quick": dict(shards=32, window=3, budget_s=300, per_path_s=30), "thorough": dict(shards=64, window=12, budget_s=3000, per_path_s=30)},
                 goals=["paused", "resumed", "suspended", "interrupted"], functions=_fns, mode="schedule",
                 symbolic=SYM + "; plus a second request of any kind (or none) landing 0..window steps after the first", out_of_bound=OUT, stubs=STUBS,
                 require_exhaustive=True))
