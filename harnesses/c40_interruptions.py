"""C40 -- interruption records are complete and uniquely numbered (RE-lab sweep, record_interruptions on and off)."""
from vlib import oracles, reharness
from vlib.harness import Harness, register
from harnesses.c01_documents import OUT, STUBS, _fns

PLANS_Q = ["scan2", "nested_runs", "sparse"]
PLANS_T = PLANS_Q + ["count2", "bare", "grid2x2", "staged_monitor", "two_runs_cleared", "monitor_mid"]


def _on(lab):
    lab.RE.record_interruptions = True


SYM = "plan index, loop step k1 of a pause (resumed) or 1 s suspension, a second interruption 0..window steps later; record_interruptions on / off"
register(Harness("c40_on", "C40", lambda P: reharness.make_sweep(P, lambda o, c: oracles.c40_interruptions(o, c, True), plans=PLANS_Q if P["tier"] == "quick" else PLANS_T,
                                                                  kinds=["pause", "suspend"], decisions=["resume"], two=True, extra=dict(setup=_on)),
                 {"quick": dict(shards=32, window=6, budget_s=300, per_path_s=30), "thorough": dict(shards=64, window=14, budget_s=3000, per_path_s=30)},
                 goals=["paused", "resumed", "suspended"], functions=_fns, mode="schedule", symbolic=SYM, out_of_bound=OUT, stubs=STUBS, require_exhaustive=True))
register(Harness("c40_off", "C40", lambda P: reharness.make_sweep(P, lambda o, c: oracles.c40_interruptions(o, c, False), plans=["scan2", "nested_runs"] if P["tier"] == "quick" else PLANS_T,
                                                                   kinds=["pause", "suspend"], decisions=["resume"]),
                 {"quick": dict(shards=8, budget_s=300, per_path_s=30), "thorough": dict(shards=16, budget_s=3000, per_path_s=30)},
                 goals=["paused", "resumed", "suspended"], functions=_fns, mode="schedule", symbolic=SYM, out_of_bound=OUT, stubs=STUBS, require_exhaustive=True))
