"""C23 -- paired-action wrappers always undo what they did.

The wrapped plan is a symbolic program; the driver script decides at every yield whether the RunEngine answers,
raises an error, requests stop/abort or closes the plan.  The emitted message list (with the outcome of each
message: answered / raised / closed) is checked against the pairing rules of the wrappers' docstrings.
"""
from vlib import genlab
from vlib.harness import Harness, register
from vlib.symx import fork_bool, fork_int, goal, only_shard

ANS, ERR, RSTOP, RABORT, CLOSE = range(5)


class Dev:
    def __init__(self, name, parent=None):
        self.name, self.parent = name, parent
        self.children = []
        if parent is not None:
            parent.children.append(self)

    def __repr__(self):
        return f"Dev({self.name})"


def drive(gen, script, responder, acts=(ANS, ERR, RSTOP, RABORT, CLOSE)):
    """Returns (events, end) where events = [(msg, outcome)], outcome in answered/raised/stop/abort/closed/pending."""
    from bluesky.utils import RequestAbort, RequestStop

    ev = []
    try:
        m = gen.send(None)
    except StopIteration as e:
        return ev, ("return", e.value)
    except Exception as e:  # noqa
        return ev, ("raised", genlab.exc_key(e))
    for j in range(len(script) + 1):
        a = acts[fork_int(script[j], 0, len(acts) - 1)] if j < len(script) else CLOSE
        try:
            if a == ANS:
                ev.append((m, "answered"))
                m = gen.send(responder(m, j))
            elif a == ERR:
                ev.append((m, "raised"))
                m = gen.throw(genlab.Boom("device", j))
            elif a == RSTOP:
                ev.append((m, "stop"))
                m = gen.throw(RequestStop())
            elif a == RABORT:
                ev.append((m, "abort"))
                m = gen.throw(RequestAbort())
            else:
                ev.append((m, "closed"))
                gen.close()
                return ev, ("closed",)
        except StopIteration as e:
            return ev, ("return", e.value)
        except Exception as e:  # noqa
            return ev, ("raised", genlab.exc_key(e))
    return ev, ("script-exhausted",)


def default_responder(m, j):
    if m.command == "open_run":
        return f"uid-{j}"
    if m.command == "subscribe":
        return 100 + j
    if m.command == "stage":
        return [m.obj] + list(m.obj.children)
    return None


# ---------------------------------------------------------------------------------------------- run_wrapper
def recorder(gen, rec):
    """Pass-through wrapper that records how the wrapped plan ended."""
    try:
        r = yield from gen
    except GeneratorExit:
        rec.append(("closed", None))
        raise
    except BaseException as e:  # noqa  (re-raised unchanged; CrossHair steering exceptions pass through)
        rec.append(("raised", e))
        raise
    rec.append(("return", r))
    return r


def make_run(P):
    import bluesky.preprocessors as bpp
    from bluesky.utils import RunEngineControlException

    L, S = P["L"], P["S"]

    def h(c1: int, c2: int, c3: int, a1: int, a2: int, a3: int, a4: int, a5: int, a6: int) -> str:
        code, script = [c1, c2, c3][:L], [a1, a2, a3, a4, a5, a6][:S]
        only_shard(fork_int(a1, 0, 4) + 5 * fork_int(a2, 0, 4), P)
        log, rec = [], []
        inner = recorder(genlab.interp(code, log, ops=genlab.SIMPLE_OPS + (genlab.TRYEXC,)), rec)
        ev, end = drive(bpp.run_wrapper(inner, md={"k": 1}), script, default_responder)
        tags = []
        if not ev:
            return "run_wrapper:no-open_run"
        if ev[0][0].command != "open_run" or sum(1 for m, _ in ev if m.command == "open_run") != 1:
            tags.append("run_wrapper:not-exactly-one-open_run-first")
        closes = [(m, o) for m, o in ev if m.command == "close_run"]
        if len(closes) > 1:
            tags.append("run_wrapper:more-than-one-close_run")
        if ev[0][1] != "answered":
            if closes:
                tags.append("run_wrapper:close_run-although-open_run-failed")
            return ";".join(sorted(set(tags)))
        if not rec:
            # wrapped plan never ended (closed before it started)
            if closes:
                tags.append("run_wrapper:close_run-before-plan-ended")
            return ";".join(sorted(set(tags)))
        how, val = rec[0]
        if how == "closed":
            goal("closed")
            if closes:
                tags.append("run_wrapper:close_run-after-generator-close")
            return ";".join(sorted(set(tags)))
        if len(closes) != 1:
            tags.append("run_wrapper:run-opened-but-no-close_run")
            return ";".join(sorted(set(tags)))
        cm = closes[0][0]
        status, reason = cm.kwargs.get("exit_status"), cm.kwargs.get("reason")
        if how == "return":
            goal("closed-normally")
            if status not in (None, "success") or reason:
                tags.append("run_wrapper:close_run-status-does-not-match-outcome")
        elif isinstance(val, RunEngineControlException):
            goal("closed-by-control-exception")
            if status != val.exit_status:
                tags.append("run_wrapper:close_run-status-does-not-match-outcome")
        else:
            goal("closed-as-fail")
            if status != "fail" or reason != str(val):
                tags.append("run_wrapper:close_run-status-does-not-match-outcome")
        # the wrapper's own ending: re-raises the plan's exception (auto_raise) unless the close_run itself was interrupted
        if closes[0][1] == "answered":
            if how == "return" and end != ("return", "uid-0"):
                tags.append("run_wrapper:does-not-return-run-uid")
            if how == "raised" and (end[0] != "raised" or end[1] != genlab.exc_key(val)):
                tags.append("run_wrapper:plan-exception-not-re-raised")
        return ";".join(sorted(set(tags)))

    return h


# ---------------------------------------------------------------------------------------------- stage wrappers
def _devices(p1, p2, p3, full=True):
    """Three devices plus a root; parent(d_i) in {None, root, d_j (j<i)} chosen by the solver."""
    root = Dev("root")
    d0 = Dev("d0", [None, root][fork_int(p1, 0, 1)])
    d1 = Dev("d1", [None, root, d0][fork_int(p2, 0, 2)])
    d2 = Dev("d2", [None, root, d0, d1][fork_int(p3, 0, 3)] if full else None)
    return root, [d0, d1, d2]


def _root(d):
    while d.parent is not None:
        d = d.parent
    return d


def _check_stage_pairing(ev, end, who, allowed_extra, stage_response=lambda m: [m.obj]):
    tags = []
    staged = []
    for m, o in ev:
        if m.command == "stage" and o == "answered":
            staged += stage_response(m)
    unstaged = [m.obj for m, o in ev if m.command == "unstage"]
    closed = end[0] == "closed" or any(o == "closed" for m, o in ev)
    if end[0] == "script-exhausted":
        return tags
    if closed:
        goal("closed")
        return tags
    # every unstage after the last stage? (not required) -- pairing:
    for d in set(staged):
        if unstaged.count(d) != staged.count(d):
            # an unstage that itself raised ends the cleanup: later devices cannot be unstaged by the wrapper
            if any(m.command == "unstage" and o != "answered" for m, o in ev):
                goal("unstage-failed")
                continue
            tags.append(f"{who}:staged-device-not-unstaged-exactly-once")
    for d in unstaged:
        if d not in staged and d not in allowed_extra:
            tags.append(f"{who}:unstaged-a-device-that-was-never-staged")
    # reverse order among staged devices
    seq = [d for d in unstaged if d in staged]
    dedup_staged = []
    for d in staged:
        if d not in dedup_staged:
            dedup_staged.append(d)
    exp = [d for d in reversed(dedup_staged)]
    seq_d = []
    for d in seq:
        if d not in seq_d:
            seq_d.append(d)
    if seq_d != exp[: len(seq_d)] and not any(m.command == "unstage" and o != "answered" for m, o in ev):
        tags.append(f"{who}:unstage-order-is-not-reverse-of-stage-order")
    if len(dedup_staged) >= 2 and len(seq_d) >= 2:
        goal("two-devices-unstaged")
    return tags


def make_stage(P):
    import bluesky.preprocessors as bpp

    L, S = P["L"], P["S"]

    def h(p1: int, p2: int, p3: int, n: int, c1: int, c2: int, a1: int, a2: int, a3: int, a4: int, a5: int, a6: int, a7: int, a8: int) -> str:
        root, devs = _devices(p1, p2, p3, full=P.get("full_ancestry", False))
        n = fork_int(n, 1, 3)
        only_shard(fork_int(a1, 0, 4) + 5 * (n - 1), P)
        code, script = [c1, c2][:L], [a1, a2, a3, a4, a5, a6, a7, a8][:S]
        log = []
        ev, end = drive(bpp.stage_wrapper(genlab.interp(code, log, ops=genlab.SIMPLE_OPS, maxdepth=0), devs[:n]), script, default_responder)
        roots = []
        for d in devs[:n]:
            if _root(d) not in roots:
                roots.append(_root(d))
        tags = _check_stage_pairing(ev, end, "stage_wrapper", roots)
        stage_msgs = [m.obj for m, o in ev if m.command == "stage"]
        if any(d not in roots for d in stage_msgs):
            tags.append("stage_wrapper:staged-something-that-is-not-a-root-ancestor")
        if len(set(stage_msgs)) != len(stage_msgs):
            tags.append("stage_wrapper:device-staged-twice")
        body_started = any(m.command == "null" for m, o in ev)
        if body_started and stage_msgs != roots:
            tags.append("stage_wrapper:plan-started-before-all-roots-staged-in-order")
        if len(roots) < n:
            goal("shared-ancestor")
        return ";".join(sorted(set(tags)))

    return h


def make_lazy(P):
    import bluesky.preprocessors as bpp
    from bluesky.utils import Msg

    L, S = P["L"], P["S"]
    CMDS = ["read", "set"]

    def h(p1: int, p2: int, p3: int, o1: int, o2: int, o3: int, d1: int, d2: int, d3: int, kids: bool,
          a1: int, a2: int, a3: int, a4: int, a5: int, a6: int, a7: int, a8: int) -> str:
        root, devs = _devices(p1, p2, p3, full=P.get("full_ancestry", False))
        ops, ds = [o1, o2, o3][:L], [d1, d2, d3][:L]
        script = [a1, a2, a3, a4, a5, a6, a7, a8][:S]
        with_kids = fork_bool(kids)
        only_shard(fork_int(a1, 0, 2) + 3 * fork_int(o1, 0, 3) + 12 * fork_int(a2, 0, 2), P)

        def plan():
            for i in range(L):
                op = fork_int(ops[i], 0, 3)
                if op == 2:
                    raise genlab.Boom("plan", i)
                if op == 3:
                    return "early"
                yield Msg(CMDS[op], devs[fork_int(ds[i], 0, 2)], i)
            return "done"

        def responder(m, j):
            if m.command == "stage":
                return [m.obj] + (_all_children(m.obj) if with_kids else [])
            return None

        ev, end = drive(bpp.lazily_stage_wrapper(plan()), script, responder, acts=(ANS, ERR, CLOSE))
        tags = _check_stage_pairing(ev, end, "lazily_stage_wrapper", [], stage_response=lambda m: responder(m, 0))
        # every device command is preceded by an answered stage of its root
        staged_roots = set()
        for m, o in ev:
            if m.command == "stage":
                if m.obj.parent is not None:
                    tags.append("lazily_stage_wrapper:staged-a-non-root")
                if o == "answered":
                    staged_roots.add(m.obj)
            elif m.command in CMDS:
                if _root(m.obj) not in staged_roots:
                    tags.append("lazily_stage_wrapper:device-used-before-its-root-was-staged")
                goal("device-used")
        return ";".join(sorted(set(tags)))

    return h


def _all_children(d):
    out = []
    for c in d.children:
        out.append(c)
        out += _all_children(c)
    return out


# ---------------------------------------------------------------------------------------------- subs / suspend
def make_subs(P):
    import bluesky.preprocessors as bpp

    L, S = P["L"], P["S"]

    def h(which: bool, same: bool, n: int, c1: int, c2: int, a1: int, a2: int, a3: int, a4: int, a5: int, a6: int, a7: int) -> str:
        code, script = [c1, c2][:L], [a1, a2, a3, a4, a5, a6, a7][:S]
        n = fork_int(n, 1, 2)
        is_subs = fork_bool(which)
        only_shard(fork_int(a1, 0, 4) + 5 * (n - 1) + 10 * is_subs, P)
        log = []
        inner = genlab.interp(code, log, ops=genlab.SIMPLE_OPS, maxdepth=0)
        if is_subs:
            f0 = lambda name, doc: None  # noqa: E731
            fs = [f0, f0 if fork_bool(same) else (lambda name, doc: 1)][:n]  # the same callable may be subscribed twice
            if n == 2 and fs[0] is fs[1]:
                goal("same-callable-twice")
            gen = bpp.subs_wrapper(inner, {"all": fs[:1], "event": fs[1:]})
            inst, rem, who = "subscribe", "unsubscribe", "subs_wrapper"
        else:
            sus = [object(), object()][:n]
            gen = bpp.suspend_wrapper(inner, sus if n > 1 else sus[0] if False else sus)
            inst, rem, who = "install_suspender", "remove_suspender", "suspend_wrapper"
        ev, end = drive(gen, script, default_responder)
        tags = []
        if end[0] in ("script-exhausted", "closed") or any(o == "closed" for m, o in ev):
            goal("closed")
            return ""
        if is_subs:
            installed = [100 + j for j, (m, o) in enumerate(ev) if m.command == inst and o == "answered"]
            removed = [m.kwargs.get("token") for m, o in ev if m.command == rem]
        else:
            installed = [m.args[0] for m, o in ev if m.command == inst and o == "answered"]
            attempted = [m.args[0] for m, o in ev if m.command == inst]
            removed = [m.args[0] for m, o in ev if m.command == rem]
        rem_failed = any(m.command == rem and o != "answered" for m, o in ev)
        for t in installed:
            c = sum(1 for r in removed if r is t or r == t)
            if c != 1 and not rem_failed:
                tags.append(f"{who}:installed-item-not-removed-exactly-once")
        if installed:
            goal("installed")
        if len(installed) == 2:
            goal("two-installed")
        if is_subs:
            for r in removed:
                if r not in installed:
                    tags.append(f"{who}:removed-token-that-was-never-issued")
        return ";".join(sorted(set(tags)))

    return h


# ---------------------------------------------------------------------------------------------- monitor / fly during
def make_during(P):
    import bluesky.preprocessors as bpp
    from bluesky.utils import Msg

    L, S = P["L"], P["S"]

    def h(which: bool, n: int, o1: int, o2: int, o3: int, o4: int, o5: int, a1: int, a2: int, a3: int, a4: int, a5: int, a6: int, a7: int, a8: int,
          a9: int, a10: int) -> str:
        ops = [o1, o2, o3, o4, o5][:L]
        script = [a1, a2, a3, a4, a5, a6, a7, a8, a9, a10][:S]
        n = fork_int(n, 1, 2)
        mon = fork_bool(which)
        only_shard(fork_int(o1, 0, 3) + 4 * fork_int(a1, 0, 4), P)
        objs = [Dev("s0"), Dev("s1")][:n]

        def plan():
            for i in range(L):
                op = fork_int(ops[i], 0, 3)
                if op == 0:
                    yield Msg("open_run")
                elif op == 1:
                    yield Msg("close_run")
                elif op == 2:
                    yield Msg("null", None, i)
                else:
                    return "early"
            return "done"

        gen = bpp.monitor_during_wrapper(plan(), objs) if mon else bpp.fly_during_wrapper(plan(), objs)
        who = "monitor_during_wrapper" if mon else "fly_during_wrapper"
        ev, end = drive(gen, script, default_responder)
        tags = []
        cmds = [(m.command, m.obj, o) for m, o in ev]
        for i, (c, obj, o) in enumerate(cmds):
            if c == "open_run" and o == "answered":
                nxt = cmds[i + 1 : i + 1 + n]
                # if the script ended / an error hit while inserting, the tail is cut short: only check complete windows
                if len(nxt) == n and all(x[2] == "answered" for x in nxt):
                    exp = "monitor" if mon else "kickoff"
                    if [x[0] for x in nxt] != [exp] * n or [x[1] for x in nxt] != objs:
                        tags.append(f"{who}:run-opened-without-starting-every-device")
                    goal("started-after-open")
            if c == "close_run":
                if mon:
                    prev = cmds[max(0, i - n) : i]
                    if [x[0] for x in prev] != ["unmonitor"] * n or [x[1] for x in prev] != objs:
                        tags.append(f"{who}:run-closed-without-unmonitoring-every-device")
                    goal("stopped-before-close")
                else:
                    prev = cmds[max(0, i - (2 * n + 1)) : i]
                    exp = ["complete"] * n + ["wait"] + ["collect"] * n
                    if [x[0] for x in prev] != exp or [x[1] for x in prev if x[0] != "wait"] != objs + objs:
                        tags.append(f"{who}:run-closed-without-complete-and-collect-of-every-flyer")
                    goal("stopped-before-close")
        return ";".join(sorted(set(tags)))

    return h


def _fns():
    import bluesky.plan_stubs as bps
    import bluesky.preprocessors as bpp

    return [bpp.run_wrapper, bpp.stage_wrapper, bpp.lazily_stage_wrapper, bpp.subs_wrapper, bpp.suspend_wrapper, bpp.monitor_during_wrapper,
            bpp.fly_during_wrapper, bpp.contingency_wrapper, bpp.finalize_wrapper, bpp.plan_mutator, bps.stage_all, bps.unstage_all]


_ACT = "driver script: S actions in {answer, device error, RequestStop, RequestAbort, close}"
_Q = dict(budget_s=200, per_path_s=20)
_TH = dict(budget_s=3000, per_path_s=30)
register(Harness("c23_run", "C23", make_run, {"quick": dict(L=3, S=5, shards=16, **_Q), "thorough": dict(L=3, S=6, shards=16, **_TH)},
                 goals=["closed-as-fail", "closed-by-control-exception", "closed-normally", "closed"], functions=_fns,
                 symbolic="wrapped program: L opcodes {yield, raise, return, end, try/except}; " + _ACT, require_exhaustive=True))
register(Harness("c23_stage", "C23", make_stage, {"quick": dict(L=1, S=5, shards=15, **_Q), "thorough": dict(L=2, S=8, shards=15, full_ancestry=True, **_TH)},
                 goals=["shared-ancestor", "two-devices-unstaged", "closed"], functions=_fns,
                 symbolic="1-3 devices with solver-chosen ancestry (parent in {none, common root, earlier device}); wrapped program L simple opcodes; " + _ACT,
                 require_exhaustive=True))
register(Harness("c23_lazy", "C23", make_lazy, {"quick": dict(L=2, S=5, shards=16, **_Q), "thorough": dict(L=3, S=8, shards=36, full_ancestry=True, **_TH)},
                 goals=["device-used", "two-devices-unstaged"], functions=_fns,
                 symbolic="3 devices with solver-chosen ancestry; wrapped plan of L steps each in {read, set on device i, raise, return}; stage() "
                 "returns the root alone or with its descendants; driver script: S actions in {answer, device error, close}", require_exhaustive=True))
register(Harness("c23_subs", "C23", make_subs, {"quick": dict(L=1, S=5, shards=16, **_Q), "thorough": dict(L=2, S=7, shards=20, **_TH)},
                 goals=["installed", "two-installed", "closed", "same-callable-twice"], functions=_fns,
                 symbolic="subs_wrapper / suspend_wrapper with 1-2 items; wrapped program L simple opcodes; " + _ACT, require_exhaustive=True))
register(Harness("c23_during", "C23", make_during, {"quick": dict(L=3, S=6, shards=16, **_Q), "thorough": dict(L=5, S=10, shards=20, **_TH)},
                 goals=["started-after-open", "stopped-before-close"], functions=_fns,
                 symbolic="monitor_during / fly_during with 1-2 devices; wrapped plan of L steps in {open_run, close_run, null, return}; " + _ACT,
                 out_of_bound="runs closed by the RunEngine rather than by a close_run message (RE-lab harnesses C06)", require_exhaustive=True))
