"""C14 -- concurrent runs with different run keys stay independent.

Generated plans: L symbolic operations over three run keys -- 0 (falsy on purpose), "b", and None relabelled to
"outer" by an enclosing set_run_key_wrapper -- each operation one of open / take-a-point / close for its key; a
second open of an already open key is attempted too (it must be rejected at that yield and disturb nothing).
A pause (resumed) lands at a symbolic loop step.  Every run must contain exactly the points taken under its key.
"""
from vlib import oracles, sweep
from vlib.harness import Harness, register
from vlib.relab import Det, Motor
from vlib.symx import fork_int, fork_range, goal, notrace, only_shard
from harnesses.c01_documents import OUT, STUBS, _fns

KEYS = [0, "b", None]
LABEL = {0: "zero", "b": "b", None: "outer"}
NOPS = 10  # 3 kinds x 3 keys + null


def build(prog, log):
    def factory(lab):
        import bluesky.preprocessors as bpp
        from bluesky.utils import IllegalMessageSequence, Msg

        m = Motor("m1", lab)
        dets = {k: Det("det_" + LABEL[k], lab, [m]) for k in KEYS}
        devices = dict(m1=m, **{d.name: d for d in dets.values()})

        def keyed(gen, k):
            return gen if k is None else bpp.set_run_key_wrapper(gen, k)

        def one(kind, k):
            if kind == 0:
                yield Msg("open_run", key=LABEL[k])
            elif kind == 1:
                yield Msg("checkpoint")
                yield Msg("create", name="primary")
                yield Msg("read", dets[k])
                yield Msg("save")
            else:
                yield Msg("close_run")

        def inner():
            is_open = {k: False for k in KEYS}
            for i, op in enumerate(prog):
                if op == 9:
                    yield Msg("null", None, i)
                    continue
                kind, k = op // 3, KEYS[op % 3]
                if kind == 0 and is_open[k]:
                    try:
                        yield from keyed(one(0, k), k)
                        log.append(("dup-open-accepted", LABEL[k]))
                    except IllegalMessageSequence:
                        log.append(("dup-open-rejected", LABEL[k]))
                    continue
                if kind != 0 and not is_open[k]:
                    yield Msg("null", None, i)
                    continue
                yield from keyed(one(kind, k), k)
                log.append((("open", "point", "close")[kind], LABEL[k]))
                is_open[k] = kind != 2
            for k in KEYS:
                if is_open[k]:
                    yield from keyed(one(2, k), k)
                    log.append(("close", LABEL[k]))

        return bpp.set_run_key_wrapper(inner(), "outer"), devices

    return factory


def oracle(obs, log):
    tags = list(oracles.c01_documents(obs)) + list(oracles.c05_numbering(obs))
    for c in obs.calls:
        if c["api"] in ("call", "resume") and c["outcome"] == "exc" and c["exc_type"] != "RunEngineInterrupted":
            tags.append(f"{c['api']}-raised-{c['exc_type']}")
    if any(e[0] == "dup-open-accepted" for e in log):
        tags.append("opening-an-already-open-run-key-was-accepted")
    if tags or obs.state != "idle" or (obs.plan_end or [None])[0] != "return":
        return sorted(set(tags))
    # expected: per key, the sequence of runs and number of points in each
    exp = {}
    cur = {}
    for what, lab in log:
        if what == "open":
            exp.setdefault(lab, []).append(0)
            cur[lab] = len(exp[lab]) - 1
        elif what == "point":
            exp[lab][cur[lab]] += 1
    got = {}
    for rec in oracles.event_table(obs.docs):
        start = next(d for n, d in obs.docs if n == "start" and d["uid"] == rec["uid"])
        lab = start.get("key")
        prim = rec["table"].get("primary", {})
        for sn, data in prim.items():
            if set(data.keys()) != {"det_" + str(lab)}:
                tags.append("event-recorded-in-a-run-with-a-different-key")
        got.setdefault(lab, []).append(len(prim))
    if got != exp:
        tags.append("runs-or-points-per-key-differ-from-what-the-plan-did")
    if len(exp) >= 2:
        goal("two-keys")
    if any(e[0] == "dup-open-rejected" for e in log):
        goal("dup-open-rejected")
    return sorted(set(tags))


def make(P):
    from vlib import reharness

    L = P["L"]
    _T = {}

    def h(o1: int, o2: int, o3: int, o4: int, o5: int, o6: int, k1: int, pause: bool) -> str:
        prog = [fork_int(o, 0, NOPS - 1) for o in [o1, o2, o3, o4, o5, o6][:L]]
        only_shard(sum(o * NOPS**i for i, o in enumerate(prog[:3])), P)
        do_pause = True if pause else False
        key = tuple(prog)
        with notrace():
            if key not in _T:
                _T[key] = sweep.dry_run_steps(build(prog, []))[0]
        reqs = []
        if do_pause:
            reqs.append(dict(step=fork_range(k1, 0, _T[key] + 1), kind="pause"))
        with notrace():
            log = []
            obs = sweep.run_case(build(prog, log), reqs, "resume")
            reharness.std_goals(obs)
            # the plan body runs twice when paused and replayed? no: the generator itself is not re-run, only messages are replayed
            return ";".join(oracle(obs, log))

    return h


SYM = ("L symbolic operations, each in {open, take a point, close} x run key in {0, 'b', None->'outer' via an enclosing set_run_key_wrapper} or null; duplicate opens are attempted; "
       "optionally a pause (resumed) at loop step k1")
register(Harness("c14_keys", "C14", make, {"quick": dict(L=3, shards=32, budget_s=300, per_path_s=30), "thorough": dict(L=4, shards=96, budget_s=3000, per_path_s=30)},
                 goals=["two-keys", "dup-open-rejected", "paused", "resumed"], functions=_fns, mode="schedule", symbolic=SYM,
                 out_of_bound=OUT + "; more than three run keys; suspensions (C03/C11 sweep nested runs)", stubs=STUBS, require_exhaustive=True))
