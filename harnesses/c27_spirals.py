"""C27 -- spiral patterns stay in bounds and square spirals cover the grid.

c27_spiral / c27_fermat (traced): the real ``plan_patterns.spiral`` / ``spiral_fermat`` run with numpy replaced by
``symnp``.  Centre and ranges are symbolic reals; dr is fixed to 1 (the patterns are scale invariant: scaling dr and
both ranges by c scales every point by c, and the ranges are arbitrary); dr_y/dr, nth / factor and the tilt are
solver-chosen from small sets, so every angle is a concrete number whose cos/sin/tan are evaluated by ``math``;
``sqrt`` of a symbolic argument -- it only determines how many rings are tried -- is replaced by a solver-chosen ring
count below R, and the ranges are constrained (one quadratic inequality pair) to those for which the real formula gives
exactly that ring count.  Oracle: every emitted point p satisfies |p.y - y_start| <= y_range/2 and
|(p.x - x_start) - ((p.y - y_start)/aspect)/tan(tilt + pi/2)| <= x_range/2 (for tilt = 0 that is the plain
rectangle).  A satisfying assignment is replayed with the real numpy.

c27_square (traced): ``spiral_square_pattern`` with x_num, y_num in [2, N] by solver forks; centre and ranges are
symbolic reals.  The emitted points must be exactly the x_num x y_num grid, each once: the same call with centre 0
and unit spacing gives the integer grid coordinates of every emitted point (checked to be a permutation of the grid),
and the symbolic run must put point i at centre - range/2 + coordinate_i * range/(num-1).
"""
import math

from vlib import symnp
from vlib.harness import Harness, register
from vlib.symx import HarnessError, Real, assume, fork_int, goal, only_shard, in_sym, is_symbolic

EPS = 1e-9  # excesses below this are floating-point rounding of the concrete trigonometry, outside the claim (exact reals)
ASPECTS = [None, 1.0, 0.5, 2.0, 3.0]
TILTS = [0.0, 0.3, -0.5]


def _tape(value):
    """sqrt of a symbolic argument (it only decides how many rings are tried) answers with the given concrete value."""

    def t(name, x):
        if not is_symbolic(x):
            return getattr(math, name)(x)
        if name != "sqrt":
            raise HarnessError(f"{name} of a symbolic argument: the harness is meant to keep every angle concrete")
        return value

    return t


def _check(cyc, xm, ym, xs, ys, xr, yr, asp, tilt, who):
    tt = math.tan(tilt + math.pi / 2.0)
    npts = 0
    for pt in cyc:
        npts += 1
        dx, dy = pt[xm] - xs, pt[ym] - ys
        if not (abs(dy) <= yr / 2 + EPS):
            return f"{who}:point-outside-the-y-range"
        if not (abs(dx - (dy / asp) / tt) <= xr / 2 + EPS):
            return f"{who}:point-outside-the-x-range"
    if npts >= 1:
        goal("points")
    if npts >= 3:
        goal("three-points")
    return ""


def make_spiral(P):
    import bluesky.plan_patterns as pp

    symnp.selftest()

    def h(xs: Real, ys: Real, xr: Real, yr: Real, ai: int, nth: int, ti: int, rings: int) -> str:
        a = fork_int(ai, 0, len(ASPECTS) - 1)
        n = fork_int(nth, 1, P["nth"])
        t = fork_int(ti, 0, len(TILTS) - 1)
        r = fork_int(rings, 0, P["R"] - 1)  # int(r_max / dr)
        only_shard(a + 5 * n + 25 * t + 75 * r, P)
        assume(xr > 0)
        assume(yr > 0)
        dr = 1.0
        dr_y = None if ASPECTS[a] is None else ASPECTS[a] * dr
        hx, hy = xr / 2, yr / (2 * (ASPECTS[a] or 1.0))
        assume(r * r <= hx * hx + hy * hy)  # int(sqrt(hx^2 + hy^2) / dr) == r, so that the forked ring count is the real one
        assume(hx * hx + hy * hy < (r + 1) * (r + 1))
        try:
            with symnp.installed(pp, tape=_tape(r + 0.5) if in_sym() else None):
                cyc = pp.spiral("x", "y", xs, ys, xr, yr, dr, n, dr_y=dr_y, tilt=TILTS[t])
        except StopIteration:  # no point fits: cycler cannot add two empty cyclers (an error, not an out-of-range point)
            goal("empty")
            return ""
        return _check(cyc, "x", "y", xs, ys, xr, yr, ASPECTS[a] or 1.0, TILTS[t], "spiral")

    return h


def make_fermat(P):
    import bluesky.plan_patterns as pp

    symnp.selftest()

    def h(xs: Real, ys: Real, xr: Real, yr: Real, ai: int, fi: int, ti: int, rings: int) -> str:
        a = fork_int(ai, 0, len(ASPECTS) - 1)
        f = [1.0, 2.0][fork_int(fi, 0, 1)]
        t = fork_int(ti, 0, len(TILTS) - 1)
        r = fork_int(rings, 2, P["Rf"])  # num_rings = int((1.5 * diag / (dr / factor)) ** 2)
        only_shard(a + 5 * t + 15 * r, P)
        assume(xr > 0)
        assume(yr > 0)
        dr = 1.0
        dr_y = None if ASPECTS[a] is None else ASPECTS[a] * dr
        hx, hy = xr / 2, yr / (2 * (ASPECTS[a] or 1.0))
        k2 = (1.5 * f) ** 2
        assume(r <= k2 * (hx * hx + hy * hy))  # int((1.5 * diag / (dr / factor)) ** 2) == r
        assume(k2 * (hx * hx + hy * hy) < r + 1)
        try:
            with symnp.installed(pp, tape=_tape(math.sqrt(r + 0.5) / (1.5 * f)) if in_sym() else None):
                cyc = pp.spiral_fermat("x", "y", xs, ys, xr, yr, dr, f, dr_y=dr_y, tilt=TILTS[t])
        except StopIteration:
            goal("empty")
            return ""
        return _check(cyc, "x", "y", xs, ys, xr, yr, ASPECTS[a] or 1.0, TILTS[t], "spiral_fermat")

    return h


def make_square(P):
    import bluesky.plan_patterns as pp

    def h(xn: int, yn: int, xc: Real, yc: Real, xr: Real, yr: Real) -> str:
        nx, ny = fork_int(xn, 2, P["N"]), fork_int(yn, 2, P["N"])
        only_shard(nx * 7 + ny, P)
        # integer run: centre 0, unit spacing -> grid coordinates relative to the centre
        unit = list(pp.spiral_square_pattern("x", "y", 0.0, 0.0, float(nx - 1), float(ny - 1), nx, ny))
        coords = [(p["x"] + (nx - 1) / 2.0, p["y"] + (ny - 1) / 2.0) for p in unit]
        grid = {(float(i), float(j)) for i in range(nx) for j in range(ny)}
        if len(coords) != nx * ny:
            return "square-spiral-does-not-have-x_num-times-y_num-points"
        if set(coords) != grid:
            return "square-spiral-misses-or-repeats-grid-points"
        goal("grid-covered")
        if nx != ny:
            goal("non-square")
        sym = list(pp.spiral_square_pattern("x", "y", xc, yc, xr, yr, nx, ny))
        if len(sym) != len(coords):
            return "square-spiral-length-depends-on-centre-or-range"
        for p, (cx, cy) in zip(sym, coords):
            if p["x"] != xc - xr / 2 + cx * (xr / (nx - 1)) or p["y"] != yc - yr / 2 + cy * (yr / (ny - 1)):
                return "square-spiral-point-is-not-on-the-requested-grid"
        return ""

    return h


def _fns(name):
    def f():
        import bluesky.plan_patterns as pp

        return [getattr(pp, name)]

    return f


_STUB = "numpy replaced by vlib/symnp.py (validated against numpy each run); sqrt of a symbolic argument answers with a value that yields the forked ring count; trig only of concrete angles (math)"
register(Harness("c27_spiral", "C27", make_spiral, {"quick": dict(nth=4, R=3, shards=32, budget_s=400, per_path_s=60), "thorough": dict(nth=6, R=4, shards=96, budget_s=3000, per_path_s=120)},
                 goals=["points", "three-points"], functions=_fns("spiral"), mode="traced", float_model="real",
                 symbolic="centre and both ranges: symbolic reals (> 0); dr = 1 (scale invariance); dr_y/dr in {None, 1, 1/2, 2, 3}; nth in [1, nth]; tilt in {0, 0.3, -0.5}; ring count: any value below R (solver fork)",
                 out_of_bound="r_max/dr >= R (more rings); other aspect ratios, nth and tilts; floating-point rounding (exact reals)", stubs=_STUB, require_exhaustive=True))
register(Harness("c27_fermat", "C27", make_fermat, {"quick": dict(Rf=8, shards=15, budget_s=400, per_path_s=60), "thorough": dict(Rf=12, shards=30, budget_s=3000, per_path_s=120)},
                 goals=["points", "three-points"], functions=_fns("spiral_fermat"), mode="traced", float_model="real",
                 symbolic="centre and both ranges: symbolic reals (> 0); dr = 1; dr_y/dr in {None, 1, 1/2, 2, 3}; factor in {1, 2}; tilt in {0, 0.3, -0.5}; ring count: any value in [2, Rf] (solver fork)",
                 out_of_bound="more than Rf rings; other aspect ratios, factors and tilts; floating-point rounding", stubs=_STUB, require_exhaustive=True))
register(Harness("c27_square", "C27", make_square, {"quick": dict(N=6, shards=4, budget_s=200, per_path_s=60), "thorough": dict(N=12, shards=16, budget_s=2000, per_path_s=120)},
                 goals=["grid-covered", "non-square"], functions=_fns("spiral_square_pattern"), mode="traced", float_model="real",
                 symbolic="x_num, y_num in [2, N] (solver forks); centre and ranges: symbolic reals", out_of_bound="x_num or y_num of 1 (division by zero in the pattern) or above N",
                 stubs="none (pure Python arithmetic)", require_exhaustive=True))
