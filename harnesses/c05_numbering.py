"""C05 -- seq_num and num_events account for every event exactly (RE-lab sweep with monitors, interruption records, flyers)."""
from vlib import oracles, reharness
from vlib.harness import Harness, register
from harnesses.c01_documents import OUT, STUBS, _fns

PLANS_Q = ["staged_monitor", "flymon", "scan2", "nested_runs", "norewind_section", "configure_mid", "configure_late"]
PLANS_T = PLANS_Q + ["count2", "bare", "declared", "grid2x2", "fly1", "count_norewind", "adaptive"]


def _setup(lab):
    lab.RE.record_interruptions = True


SYM = ("plan index, pump step k1 of a pause or 1 s suspension (resume after each pause), two monitored-signal updates at loop steps u1,u2 in [0,T+2]; "
       "record_interruptions=True")
register(Harness("c05_mon", "C05", lambda P: reharness.make_sweep(P, oracles.c05_numbering, plans=["staged_monitor", "flymon"],
                                                                   kinds=["pause", "suspend"], decisions=["resume"], updates=1 if P["tier"] == "quick" else 2,
                                                                   extra=dict(setup=_setup)),
                 {"quick": dict(shards=16, budget_s=300, per_path_s=30), "thorough": dict(shards=64, budget_s=3000, per_path_s=30)},
                 goals=["paused", "resumed", "suspended"], functions=_fns, mode="schedule", symbolic=SYM, out_of_bound=OUT, stubs=STUBS, require_exhaustive=True))
register(Harness("c05_sweep", "C05", lambda P: reharness.make_sweep(P, oracles.c05_numbering, plans=PLANS_Q if P["tier"] == "quick" else PLANS_T,
                                                                     kinds=["pause", "suspend"], decisions=["resume"], extra=dict(setup=_setup)),
                 {"quick": dict(shards=8, budget_s=300, per_path_s=30), "thorough": dict(shards=32, budget_s=3000, per_path_s=30)},
                 goals=["paused", "resumed", "suspended"], functions=_fns, mode="schedule", symbolic=SYM, out_of_bound=OUT, stubs=STUBS, require_exhaustive=True))
register(Harness("c05_two", "C05", lambda P: reharness.make_sweep(P, oracles.c05_numbering, plans=["norewind_section", "configure_mid", "scan2"] if P["tier"] == "quick" else PLANS_T,
                                                                   kinds=["pause", "suspend"], decisions=["resume"], two=True, extra=dict(setup=_setup)),
                 {"quick": dict(shards=16, window=5, budget_s=300, per_path_s=30), "thorough": dict(shards=64, window=14, budget_s=3000, per_path_s=30)},
                 goals=["paused", "resumed", "suspended"], functions=_fns, mode="schedule", symbolic=SYM + "; second interruption 0..window steps after the first",
                 out_of_bound=OUT, stubs=STUBS, require_exhaustive=True))
