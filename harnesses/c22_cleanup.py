"""C22 -- finalize_wrapper / finalize_decorator / contingency_wrapper behave like try/except/else/finally.

Differential check against a reference generator written with literal Python try/except/else/finally (plus the
documented exemption: no cleanup when the wrapped plan is closed), on symbolic wrapped / cleanup / except / else
programs and symbolic driver scripts; plus direct oracles that do not depend on the reference: the cleanup plan is
started exactly once after any ending other than close, never on close; the else plan starts iff the wrapped plan
returned; the except plan starts iff the wrapped plan ended with an Exception.
"""
from vlib import genlab
from vlib.harness import Harness, register
from vlib.symx import fork_bool, fork_int, goal, only_shard


A4 = [genlab.SEND, genlab.THROW, genlab.STOP, genlab.CLOSE]
A5 = A4 + [genlab.THROWBASE]  # a BaseException that is not an Exception (KeyboardInterrupt, CancelledError)
A_DEBUG = [genlab.SEND, genlab.THROW, genlab.STOP, genlab.THROWBASE]  # no close: closing a plan that sits at its debug pause is outside the claim


def _kind(t, i):
    return t[i][0] if i < len(t) else "missing"


def _sub(code, log, tag):
    """Factory for a sub-plan (cleanup/except/else) that logs when it is started."""

    def mk(*a):
        def g():
            log.append(("start", tag) + tuple(genlab.exc_key(x) for x in a))
            r = yield from genlab.interp(code, log, tag=tag, ops=genlab.SIMPLE_OPS, maxdepth=0)
            return r

        return g()

    return mk


def ref_finalize(plan, mkfinal, pause_for_debug=False):
    import bluesky.plan_stubs as bps

    closed = False
    try:
        ret = yield from plan
    except GeneratorExit:
        closed = True
        raise
    except BaseException:
        if pause_for_debug:  # documented: pause before the cleanup so that the failure can be inspected
            yield from bps.pause()
        raise
    finally:
        if not closed:
            yield from mkfinal()
    return ret


def ref_contingency(plan, mkexc, mkelse, mkfinal, auto_raise):
    closed = False
    try:
        try:
            ret = yield from plan
        except GeneratorExit:
            closed = True
            raise
        except Exception as e:
            if mkexc is None:
                raise
            ret = yield from mkexc(e)
            if auto_raise:
                raise
            return ret
        else:
            if mkelse is not None:
                yield from mkelse()
    finally:
        if not closed and mkfinal is not None:
            yield from mkfinal()
    return ret


def _direct(trace, log, who, has_final=True):
    """Reference-independent oracles on one execution of the real wrapper."""
    tags = []
    nfinal = sum(1 for e in log if e[:2] == ("start", "f"))
    # how did the wrapped plan (tag 'p') end?  closed iff a close action happened before any sub-plan started
    started_sub = any(e[0] == "start" for e in log)
    closed_in_body = (not started_sub) and any(e[0] in ("close", "script-end-close") for e in trace)
    if nfinal > 1:
        tags.append(f"{who}:cleanup-ran-more-than-once")
    if closed_in_body:
        goal("closed-in-body")
        if nfinal != 0:
            tags.append(f"{who}:cleanup-ran-on-close")
    elif has_final and nfinal == 0 and trace and trace[-1][0] in ("return", "raised", "raised-base"):
        tags.append(f"{who}:cleanup-did-not-run")
    if nfinal == 1:
        goal("cleanup-ran")
    return tags


def make_finalize(P):
    import bluesky.preprocessors as bpp

    L, Lf, S = P["L"], P["Lf"], P["S"]

    def h(c1: int, c2: int, c3: int, c4: int, f1: int, f2: int, f3: int, a1: int, a2: int, a3: int, a4: int, a5: int, a6: int,
          v1: int, v2: int, v3: int, v4: int, v5: int, v6: int, form: int) -> str:
        code, fcode = [c1, c2, c3, c4][:L], [f1, f2, f3][:Lf]
        script, vals = [a1, a2, a3, a4, a5, a6][:S], [v1, v2, v3, v4, v5, v6]
        form = 3 if P.get("debug") else fork_int(form, 0, 2)  # 0: wrapper + callable, 1: wrapper + generator instance, 2: decorator, 3: wrapper with pause_for_debug
        only_shard(fork_int(c1, 0, genlab.NOPS - 1) * 4 + form, P)
        ACTS = P["acts"]
        who = ("finalize_wrapper(callable)", "finalize_wrapper(instance)", "finalize_decorator", "finalize_wrapper(pause_for_debug)")[form]
        log0, log1 = [], []
        t0 = genlab.drive(ref_finalize(genlab.interp(code, log0), _sub(fcode, log0, "f"), pause_for_debug=form == 3), script, vals, alphabet=ACTS)
        mkf = _sub(fcode, log1, "f")
        if form == 0:
            real = bpp.finalize_wrapper(genlab.interp(code, log1), mkf)
        elif form == 1:
            real = bpp.finalize_wrapper(genlab.interp(code, log1), mkf())
        elif form == 2:
            real = bpp.finalize_decorator(mkf)(lambda: genlab.interp(code, log1))()
        else:
            real = bpp.finalize_wrapper(genlab.interp(code, log1), mkf, pause_for_debug=True)
        t1 = genlab.drive(real, script, vals, alphabet=ACTS)
        tags = _direct(t1, log1, who)
        i = genlab.first_diff(t0, t1)
        if i >= 0:
            tags.append(f"{who}:trace-differs-from-try-finally:{_kind(t0, i)}-vs-{_kind(t1, i)}")
        j = genlab.first_diff(log0, log1)
        if j >= 0:
            tags.append(f"{who}:plan-side-log-differs:{_kind(log0, j)}-vs-{_kind(log1, j)}")
        for e in t1:
            if e[0] == "raised":
                goal("raised")
            if e[0] == "return":
                goal("returned")
        return ";".join(sorted(set(tags)))

    return h


def make_contingency(P):
    import bluesky.preprocessors as bpp

    L, Ls, S = P["L"], P["Lf"], P["S"]
    ACTS = P["acts"]

    def h(c1: int, c2: int, c3: int, f1: int, f2: int, e1: int, e2: int, l1: int, l2: int, a1: int, a2: int, a3: int, a4: int, a5: int, a6: int,
          v1: int, v2: int, v3: int, v4: int, v5: int, v6: int, has_e: bool, has_l: bool, has_f: bool, auto_raise: bool) -> str:
        code = [c1, c2, c3][:L]
        fcode, ecode, lcode = [f1, f2][:Ls], [e1, e2][:Ls], [l1, l2][:Ls]
        script, vals = [a1, a2, a3, a4, a5, a6][:S], [v1, v2, v3, v4, v5, v6]
        he, hl, hf, ar = fork_bool(has_e), fork_bool(has_l), fork_bool(has_f), fork_bool(auto_raise)
        only_shard(he + 2 * hl + 4 * hf + 8 * ar, P)
        who = "contingency_wrapper"
        log0, log1 = [], []
        t0 = genlab.drive(
            ref_contingency(genlab.interp(code, log0, ops=genlab.SIMPLE_OPS + (genlab.TRYEXC,)),
                            _sub(ecode, log0, "e") if he else None, _sub(lcode, log0, "l") if hl else None,
                            _sub(fcode, log0, "f") if hf else None, ar), script, vals, alphabet=ACTS)
        real = bpp.contingency_wrapper(
            genlab.interp(code, log1, ops=genlab.SIMPLE_OPS + (genlab.TRYEXC,)),
            except_plan=_sub(ecode, log1, "e") if he else None, else_plan=_sub(lcode, log1, "l") if hl else None,
            final_plan=_sub(fcode, log1, "f") if hf else None, auto_raise=ar)
        t1 = genlab.drive(real, script, vals, alphabet=ACTS)
        tags = _direct(t1, log1, who, has_final=hf)
        i = genlab.first_diff(t0, t1)
        if i >= 0:
            tags.append(f"{who}:trace-differs-from-try-except-else-finally:{_kind(t0, i)}-vs-{_kind(t1, i)}")
        j = genlab.first_diff(log0, log1)
        if j >= 0:
            tags.append(f"{who}:plan-side-log-differs:{_kind(log0, j)}-vs-{_kind(log1, j)}")
        ne = sum(1 for e in log1 if e[:2] == ("start", "e"))
        nl = sum(1 for e in log1 if e[:2] == ("start", "l"))
        if ne > 1 or nl > 1 or (ne and nl):
            tags.append(f"{who}:except-and-else-plans-both-or-repeated")
        if ne:
            goal("except-plan-ran")
        if nl:
            goal("else-plan-ran")
        return ";".join(sorted(set(tags)))

    return h


def _fns():
    import bluesky.preprocessors as bpp

    return [bpp.finalize_wrapper, bpp.finalize_decorator, bpp.contingency_wrapper]


_SYM = ("wrapped program: L opcodes of the genlab grammar; cleanup / except / else programs: Lf opcodes in {yield, raise, return, end}; "
        "driver script: S actions in {send symbolic int, throw Boom, throw RequestStop, throw a BaseException that is not an Exception, close}; flags has_except/has_else/has_final/auto_raise; "
        "final_plan given as callable, generator instance, through the decorator, or with pause_for_debug=True")
_OUT = "longer programs/scripts; close() arriving while the except/else plan runs is compared with literal Python semantics only"
register(Harness("c22_finalize", "C22", make_finalize,
                 {"quick": dict(L=3, Lf=2, S=3, acts=A4, shards=21, budget_s=300, per_path_s=20), "thorough": dict(L=4, Lf=2, S=4, acts=A5, shards=28, budget_s=3000, per_path_s=30)},
                 goals=["closed-in-body", "cleanup-ran", "raised", "returned"], functions=_fns, symbolic=_SYM, out_of_bound=_OUT, require_exhaustive=True))
register(Harness("c22_debug_pause", "C22", make_finalize,
                 {"quick": dict(L=2, Lf=1, S=3, acts=A_DEBUG, debug=True, shards=8, budget_s=300, per_path_s=20), "thorough": dict(L=3, Lf=2, S=4, acts=A_DEBUG, debug=True, shards=16, budget_s=3000, per_path_s=30)},
                 goals=["cleanup-ran", "raised"], functions=_fns, symbolic=_SYM + " -- finalize_wrapper(pause_for_debug=True): the driver also answers the debug pause", out_of_bound=_OUT + "; close() while the plan sits at its debug pause",
                 require_exhaustive=True))
register(Harness("c22_contingency", "C22", make_contingency,
                 {"quick": dict(L=2, Lf=2, S=3, acts=A5, shards=16, budget_s=300, per_path_s=20), "thorough": dict(L=3, Lf=2, S=4, acts=A5, shards=16, budget_s=3000, per_path_s=30)},
                 goals=["closed-in-body", "cleanup-ran", "except-plan-ran", "else-plan-ran"], functions=_fns, symbolic=_SYM, out_of_bound=_OUT,
                 require_exhaustive=True))
