"""C28 -- repeat / count run the inner plan exactly num times with the right delays.

``time.time`` as seen by ``bluesky.plan_stubs`` is a tape of arbitrary non-decreasing reals; delays are symbolic
reals given as a scalar, a list (has ``len``) or a generator (no ``len``); num is forked over [0, maxnum] and None.
"""
import types

from vlib.harness import Harness, register
from vlib.symx import Real, assume, fork_bool, fork_int, goal, only_shard


class _Det:
    name = "det"
    parent = None

    def __repr__(self):
        return "det"


def _run(P, use_count):
    import bluesky.plan_stubs as bps
    import bluesky.plans as bp
    from bluesky.utils import Msg

    MAXN = P["maxnum"]

    def h(num: int, kind: int, k: int, with_none: bool, consume: int,
          d1: Real, d2: Real, d3: Real, d4: Real, d5: Real,
          e1: Real, e2: Real, e3: Real, e4: Real, e5: Real, e6: Real, e7: Real, e8: Real, e9: Real, e10: Real) -> str:
        who = "count" if use_count else "repeat"
        n = fork_int(num, 0, MAXN + 1)  # MAXN+1 stands for None
        kind = fork_int(kind, 0, 2)  # 0 scalar, 1 list, 2 generator
        only_shard(n * 3 + kind, P)
        num_arg = None if n == MAXN + 1 else n
        ds = [d1, d2, d3, d4, d5]
        es = [e1, e2, e3, e4, e5, e6, e7, e8, e9, e10]
        for e in es:
            assume(e >= 0)
        if kind == 0:
            none_delay = fork_bool(with_none)
            delay = None if none_delay else d1
            delays = None
        else:
            kk = fork_int(k, 0, MAXN + 1)
            delays = ds[:kk] + [d1] * max(0, kk - len(ds))
            if kk and fork_bool(with_none):
                delays[0] = None
            delay = list(delays) if kind == 1 else (x for x in list(delays))
        # consumer for num=None: stops after `stop_after` repetitions
        stop_after = fork_int(consume, 1, MAXN) if num_arg is None else None
        clock = {"t": 0.0, "i": 0, "reads": []}
        msgs = []

        def fake_time():
            clock["t"] = clock["t"] + es[clock["i"] % len(es)]
            clock["i"] += 1
            clock["reads"].append((len(msgs), clock["t"]))
            return clock["t"]

        saved = bps.time
        bps.time = types.SimpleNamespace(time=fake_time)
        err = None
        try:
            if use_count:
                gen = bp.count([_Det()], num=num_arg, delay=delay)
            else:
                gen = bps.repeat(lambda: iter([Msg("null", None, "inner")]), num=num_arg, delay=delay)
            try:
                reps = 0
                m = gen.send(None)
                while True:
                    msgs.append(m)
                    if len(msgs) > 40 * (MAXN + 2):
                        gen.close()
                        return f"{who}:keeps-repeating-beyond-num"
                    if m.command == ("save" if use_count else "null"):
                        reps += 1
                    if stop_after is not None and reps >= stop_after and m.command in ("save", "null"):
                        # let one more message come (a possible sleep) then stop consuming at the next checkpoint
                        pass
                    if stop_after is not None and reps >= stop_after and m.command == "checkpoint" and len(msgs) > 1:
                        msgs.pop()
                        gen.close()
                        break
                    m = gen.send(None)
            except StopIteration:
                pass
            except ValueError:
                err = "ValueError"
        finally:
            bps.time = saved
        # ---- reference
        inner_cmd = "save" if use_count else "null"
        body = [m for m in msgs if m.command in ("checkpoint", inner_cmd, "sleep")]
        if use_count:  # one_shot adds its own checkpoint right after repeat's: keep the first of each pair
            body = [m for j, m in enumerate(body) if not (m.command == "checkpoint" and j > 0 and body[j - 1].command == "checkpoint")]
        pos = {id(m): i for i, m in enumerate(msgs)}
        nrep = sum(1 for m in body if m.command == inner_cmd)
        tags = []
        # how many repetitions are expected
        if num_arg is None:
            allowed = stop_after if delays is None else min(stop_after, len(delays) + 1)
            exp_err = None
        else:
            if delays is None:
                allowed, exp_err = num_arg, None
            elif len(delays) >= num_arg - 1 or num_arg == 0:
                allowed, exp_err = num_arg, None
            elif kind == 1:
                allowed, exp_err = 0, "ValueError"
            else:
                allowed, exp_err = len(delays) + 1, "ValueError"
        if exp_err:
            goal("short-delays")
        if nrep != allowed:
            tags.append(f"{who}:wrong-number-of-repetitions")
        if err != exp_err:
            tags.append(f"{who}:ValueError-expectation-mismatch")
        if tags:
            return ";".join(tags)
        # structure: (checkpoint, inner, [sleep])*
        i = 0
        rep = 0
        reads = clock["reads"]
        while i < len(body):
            if body[i].command != "checkpoint":
                tags.append(f"{who}:repetition-not-preceded-by-checkpoint")
                break
            if i + 1 >= len(body) or body[i + 1].command != inner_cmd:
                # a trailing checkpoint without inner plan can only happen when we closed the generator
                if i + 1 >= len(body) and num_arg is None:
                    break
                tags.append(f"{who}:checkpoint-without-repetition")
                break
            i += 2
            # expected sleep for this repetition
            d = None
            if delays is None:
                d = delay
            elif rep < len(delays):
                d = delays[rep]
            slept = i < len(body) and body[i].command == "sleep"
            if d is None:
                if slept:
                    tags.append(f"{who}:slept-without-a-delay")
            else:
                # repeat() reads the clock before the checkpoint and (when there is a delay) after the inner plan
                ci = pos[id(body[i - 2])]
                before = [t for n_, t in reads if n_ == ci]
                after = [t for n_, t in reads if n_ > ci]
                if before and after:
                    remaining = d - (after[0] - before[-1])
                    if remaining > 0:
                        goal("slept")
                        if not slept:
                            tags.append(f"{who}:did-not-sleep-positive-remainder")
                        elif body[i].args[0] != remaining:
                            tags.append(f"{who}:slept-wrong-duration")
                    else:
                        goal("no-sleep-needed")
                        if slept:
                            tags.append(f"{who}:slept-non-positive-remainder")
            if slept:
                i += 1
            rep += 1
        if nrep >= 2:
            goal("repeated")
        return ";".join(sorted(set(tags)))

    return h


def _fns():
    import bluesky.plan_stubs as bps
    import bluesky.plans as bp

    return [bps.repeat, bp.count]


_SYM = ("num in [0,maxnum] or None (consumer stops after 1..maxnum repetitions); delay: scalar real / None, list of 0..maxnum+1 reals, or generator "
        "of the same (first entry optionally None); clock: arbitrary non-decreasing reals (10 symbolic increments)")
_STUBS = ["time.time as seen by bluesky.plan_stubs returns a symbolic non-decreasing tape", "count: a fake detector; RunEngine responses are None (plan is list-ified)"]
_T = {"quick": dict(maxnum=4, shards=18, budget_s=200, per_path_s=20), "thorough": dict(maxnum=6, shards=24, budget_s=3000, per_path_s=30)}
register(Harness("c28_repeat", "C28", lambda P: _run(P, False), _T, goals=["slept", "no-sleep-needed", "repeated", "short-delays"], functions=_fns,
                 symbolic=_SYM, stubs=_STUBS, float_model="real", opaque_text=True, out_of_bound="float rounding (reals); inner plans that raise",
                 require_exhaustive=True))
register(Harness("c28_count", "C28", lambda P: _run(P, True), {"quick": dict(maxnum=3, shards=15, budget_s=200, per_path_s=20), "thorough": dict(maxnum=4, shards=18, budget_s=3000, per_path_s=30)},
                 goals=["slept", "repeated"], functions=_fns, symbolic=_SYM, stubs=_STUBS, float_model="real", opaque_text=True,
                 out_of_bound="float rounding (reals); per_shot hooks", require_exhaustive=True))
