"""C24 -- relative moves are offsets from the start and are undone at the end.

Three fake movable devices, one per way the wrappers find an initial position (``.position`` attribute, Locatable,
hinted read); initial positions and offsets are symbolic reals; the wrapped plan is a symbolic sequence of sets (or
a raise); the driver may fail any message.  Checked: every set on an eligible device targets initial + offset
(relative_set_wrapper, rel_set, mvr); after any ending with cleanup every device whose initial position was stashed
gets a final set to exactly its initial position (reset_positions_wrapper), also when both are nested as in rel_scan.
"""
from vlib import genlab
from vlib.harness import Harness, register
from vlib.symx import Real, fork_bool, fork_int, goal, only_shard


class _Base:
    parent = None

    def __init__(self, name, pos):
        self.name = name
        self._pos = pos  # symbolic; kept out of hash/eq

    def set(self, v):
        return None

    def __repr__(self):
        return self.name


class PosMotor(_Base):
    @property
    def position(self):
        return self._pos


class LocMotor(_Base):
    rb_offset = 0.0

    def locate(self):
        return {"setpoint": self._pos, "readback": self._pos + self.rb_offset}


class ReadMotor(_Base):
    @property
    def hints(self):
        return {"fields": [self.name]}

    def read(self):
        return {self.name: {"value": self._pos, "timestamp": 0.0}}

    def describe(self):
        return {self.name: {"source": "x", "dtype": "number", "shape": []}}


def make(P):
    import bluesky.plan_stubs as bps
    import bluesky.preprocessors as bpp
    from bluesky.utils import Msg, RequestStop

    L = P["L"]

    def h(i0: Real, i1: Real, i2: Real, rb: Real, o1: Real, o2: Real, o3: Real, p1: int, p2: int, p3: int, form: int, subset: int, fail_at: int, stop: bool) -> str:
        devs = [PosMotor("m_pos", i0), LocMotor("m_loc", i1), ReadMotor("m_read", i2)]
        devs[1].rb_offset = rb  # readback differs from the setpoint by an arbitrary amount
        init = {devs[0]: i0, devs[1]: i1, devs[2]: i2}
        offs = [o1, o2, o3][:L]
        form = fork_int(form, 0, 4)  # 0 relative, 1 reset, 2 reset(relative) as rel_scan, 3 mvr, 4 rel_set
        subset = fork_int(subset, 0, 2)  # devices=None / [m_pos] / [m_pos, m_loc]
        only_shard(form * 3 + subset, P)
        sub = [None, devs[:1], devs[:2]][subset]
        eligible = devs if sub is None else sub
        steps = []  # (device, offset) or "raise"
        nsteps = L if form < 3 else (2 if form == 3 else 1)
        for j in range(nsteps):
            op = fork_int([p1, p2, p3][j], 0, 3)
            if op == 3 and form < 3:
                steps.append("raise")
                break
            steps.append((devs[op % 3], offs[j]))

        st = {"j": 0, "plan_end": None}

        def plan():
            try:
                for s in steps:
                    if s == "raise":
                        raise genlab.Boom("plan")
                    yield Msg("set", s[0], s[1], group="g")
                yield Msg("wait", None, group="g")
                return "done"
            finally:
                st["plan_end"] = st["j"]

        if form == 0:
            gen = bpp.relative_set_wrapper(plan(), sub)
        elif form == 1:
            gen = bpp.reset_positions_wrapper(plan(), sub)
        elif form == 2:
            gen = bpp.reset_positions_wrapper(bpp.relative_set_wrapper(plan(), sub), sub)
        elif form == 3:
            if steps[0][0] is steps[1][0]:
                steps[1] = (devs[(devs.index(steps[0][0]) + 1) % 3], steps[1][1])
            gen = bps.mvr(steps[0][0], steps[0][1], steps[1][0], steps[1][1])
            eligible = [steps[0][0], steps[1][0]]
        else:
            gen = bps.rel_set(steps[0][0], steps[0][1], wait=fork_bool(stop))
            eligible = devs
        relative = form in (0, 2, 3, 4)
        resets = form in (1, 2)
        # ---- drive
        fail = fork_int(fail_at, 0, P["S"])  # message index at which the driver raises; S = never
        use_stop = fork_bool(stop) if fail < P["S"] else False
        if fail == P["S"]:
            fail = 10**6  # never
        sets, ended, stashed = [], None, []
        try:
            m = gen.send(None)
            while True:
                j = st["j"]
                if m.command in ("locate", "read") and m.obj not in stashed:
                    stashed.append(m.obj)
                if m.command == "set" and isinstance(m.obj, PosMotor) and m.obj not in stashed and st["plan_end"] is None:
                    stashed.append(m.obj)  # .position is read without a message
                st["j"] = j + 1
                if j == fail:
                    goal("failure-injected")
                    m = gen.throw(RequestStop() if use_stop else genlab.Boom("device", j))
                    continue
                if m.command == "set":
                    sets.append((m.obj, m.args[0], j))
                    m.obj._pos = m.args[0]  # the device moves
                    r = None
                elif m.command == "locate":
                    r = m.obj.locate()
                elif m.command == "read":
                    r = m.obj.read()
                else:
                    r = None
                m = gen.send(r)
        except StopIteration:
            ended = "return"
        except genlab.Boom:
            ended = "raised"
        except RequestStop:
            ended = "stopped"
        tags = []
        who = ("relative_set_wrapper", "reset_positions_wrapper", "reset(relative)", "mvr", "rel_set")[form]
        pe = st["plan_end"] if st["plan_end"] is not None else 10**6
        plan_sets = [s for s in steps if s != "raise"]
        body = [x for x in sets if x[2] < pe]
        tail = [x for x in sets if x[2] >= pe]
        # ---- oracle 1: targets of the plan's own sets
        for n, (dev, target, _) in enumerate(body):
            if n >= len(plan_sets) or dev is not plan_sets[n][0]:
                tags.append(f"{who}:unexpected-set-during-plan")
                break
            off = plan_sets[n][1]
            if relative and dev in eligible:
                goal("relative-set")
                if target != init[dev] + off:
                    tags.append(f"{who}:set-target-is-not-initial-plus-offset")
            elif target != off:
                tags.append(f"{who}:absolute-set-was-altered")
        # ---- oracle 2: reset
        if not resets:
            if tail:
                tags.append(f"{who}:unexpected-set-after-plan")
        elif st["plan_end"] is not None:
            expected = []  # devices the plan actually moved (an answered set), eligible for the wrapper
            for d, _, _ in body:
                if d in eligible and d not in expected:
                    expected.append(d)
            may = [d for d in stashed if d in eligible]  # position read, set interrupted: resetting is harmless
            got = [d for d, _, _ in tail]
            for d, t, _ in tail:
                goal("reset-set")
                if d not in expected and d not in may:
                    tags.append(f"{who}:reset-of-a-device-that-was-not-moved")
                elif t != init[d]:
                    tags.append(f"{who}:reset-target-is-not-initial-position")
            if any(got.count(d) > 1 for d in expected):
                tags.append(f"{who}:moved-device-reset-more-than-once")
            failed_during_reset = fail < 10**6 and fail >= pe
            if not failed_during_reset and any(got.count(d) == 0 for d in expected):
                tags.append(f"{who}:moved-device-not-commanded-back")
        return ";".join(sorted(set(tags)))

    return h


class PseudoParent(_Base):
    RealPosition = tuple

    def __init__(self, name):
        self.name = name
        self.pseudo_positioners = []
        self.real_positioners = []

    @property
    def position(self):
        return tuple(c._pos for c in self.pseudo_positioners)


class PseudoAxis(PosMotor):
    def __init__(self, name, pos, parent):
        super().__init__(name, pos)
        self.parent = parent
        parent.pseudo_positioners.append(self)


def make_pseudo(P):
    import bluesky.preprocessors as bpp
    from bluesky.utils import Msg

    def h(pa: Real, pb: Real, oa: Real, ob: Real, order: int, form: int, subset: int, fail_at: int) -> str:
        par = PseudoParent("pp")
        a, b = PseudoAxis("pp_a", pa, par), PseudoAxis("pp_b", pb, par)
        init = {a: pa, b: pb}
        order = fork_int(order, 0, 3)  # a,b / b,a / a,a / a only
        steps = [[(a, oa), (b, ob)], [(b, ob), (a, oa)], [(a, oa), (a, ob)], [(a, oa)]][order]
        form = fork_int(form, 0, 2)  # relative / reset / reset(relative)
        subset = fork_int(subset, 0, 2)  # [a, b] / [a] / None
        sub = [[a, b], [a], None][subset]
        only_shard(order * 9 + form * 3 + subset, P)
        st = {"j": 0, "plan_end": None}

        def plan():
            try:
                for d, off in steps:
                    yield Msg("set", d, off, group="g")
                yield Msg("wait", None, group="g")
            finally:
                st["plan_end"] = st["j"]

        if form == 0:
            gen = bpp.relative_set_wrapper(plan(), sub)
        elif form == 1:
            gen = bpp.reset_positions_wrapper(plan(), sub)
        else:
            gen = bpp.reset_positions_wrapper(bpp.relative_set_wrapper(plan(), sub), sub)
        fail = fork_int(fail_at, 0, 8)
        if fail == 8:
            fail = 10**6
        sets = []
        try:
            m = gen.send(None)
            while True:
                j = st["j"]
                st["j"] = j + 1
                if j == fail:
                    goal("failure-injected")
                    m = gen.throw(genlab.Boom("device", j))
                    continue
                if m.command == "set":
                    sets.append((m.obj, m.args[0], j))
                    if m.obj is par:
                        for c, v in zip(par.pseudo_positioners, m.args[0]):
                            c._pos = v
                    else:
                        m.obj._pos = m.args[0]
                m = gen.send(None)
        except StopIteration:
            pass
        except genlab.Boom:
            pass
        who = ("relative_set_wrapper", "reset_positions_wrapper", "reset(relative)")[form] + "[pseudo]"
        tags = []
        pe = st["plan_end"] if st["plan_end"] is not None else 10**6
        body = [x for x in sets if x[2] < pe]
        tail = [x for x in sets if x[2] >= pe]
        # when devices is None the wrapper treats every set device as eligible; with a list, only listed axes and their coupled siblings
        coupled = sub is not None
        eligible = [a, b] if (sub is None or coupled) else []
        if form in (0, 2):
            for n, (d, target, _) in enumerate(body):
                off = steps[n][1]
                goal("relative-set")
                if target != init[d] + off:
                    tags.append(f"{who}:set-target-is-not-initial-plus-offset")
        if form in (1, 2) and st["plan_end"] is not None and not (fail < 10**6 and fail >= pe):
            moved = []
            for d, _, _ in body:
                if d not in moved:
                    moved.append(d)
            # final commanded position of every moved axis must be its initial position (directly or through the parent)
            final = {}
            for d, v, _ in tail:
                goal("reset-set")
                if d is par:
                    for c, x in zip(par.pseudo_positioners, v):
                        final[c] = x
                else:
                    final[d] = v
            for d in moved:
                if d not in final:
                    tags.append(f"{who}:moved-axis-not-commanded-back")
                elif final[d] != init[d]:
                    tags.append(f"{who}:reset-target-is-not-initial-position")
            for d, x in final.items():
                if x != init[d]:
                    tags.append(f"{who}:reset-target-is-not-initial-position")
        return ";".join(sorted(set(tags)))

    return h


def _first_reset_index(steps, stashed, eligible):
    """Lower bound on the message index of the first reset message: all plan messages come before it."""
    n = 0
    for s in steps:
        if s == "raise":
            break
        n += 1
    return n  # plan sets alone; reads/locates only add to it


def _fns():
    import bluesky.plan_stubs as bps
    import bluesky.preprocessors as bpp

    return [bpp.relative_set_wrapper, bpp.reset_positions_wrapper, bps.mvr, bps.rel_set, bpp.plan_mutator, bpp.msg_mutator]


register(Harness("c24_relative", "C24", make,
                 {"quick": dict(L=2, S=10, shards=15, budget_s=200, per_path_s=20), "thorough": dict(L=3, S=14, shards=15, budget_s=3000, per_path_s=30)},
                 goals=["relative-set", "reset-set", "failure-injected"], functions=_fns, float_model="real", opaque_text=True,
                 symbolic="initial positions and offsets: arbitrary reals; plan: up to L steps each 'set device i to offset' or raise; wrapper form in "
                 "{relative_set_wrapper, reset_positions_wrapper, reset(relative) as in rel_scan, mvr, rel_set}; devices argument in {None, [m_pos], "
                 "[m_pos, m_loc]}; the driver raises a device error or RequestStop at message index fail_at in [0,S)",
                 out_of_bound="pseudo-positioners (coupled axes); float rounding; rel_* scans themselves (C25 harness covers their trajectories)",
                 stubs=["three fake movables: .position attribute / Locatable / hinted read", "number text is opaque"], require_exhaustive=True))
register(Harness("c24_pseudo", "C24", make_pseudo, {"quick": dict(shards=12, budget_s=200, per_path_s=20)},
                 goals=["relative-set", "reset-set", "failure-injected"], functions=_fns, float_model="real", opaque_text=True,
                 symbolic="a pseudo-positioner with two coupled axes at arbitrary real positions; two separate sets (a,b / b,a / a,a / a) with arbitrary real offsets; "
                 "wrapper form in {relative, reset, reset(relative)}; devices in {[a,b], [a], None}; device error at message index fail_at in [0,8)",
                 out_of_bound="real (non-pseudo) axes of a pseudo-positioner; more than two coupled axes", stubs=["duck-typed fake PseudoPositioner (RealPosition attribute, pseudo_positioners)"],
                 require_exhaustive=True))


# ---- a device and one of its (non-pseudo) child components moved by the same plan; and the real rel_* plans
class ChildComp(PosMotor):
    def __init__(self, name, pos, parent):
        super().__init__(name, pos)
        self.parent = parent


def make_component(P):
    import bluesky.preprocessors as bpp
    from bluesky.utils import Msg

    def h(pp: Real, pc: Real, op: Real, oc: Real, order: int, form: int, subset: int, fail_at: int) -> str:
        par = PosMotor("m", pp)
        child = ChildComp("m_velocity", pc, par)
        init = {par: pp, child: pc}
        order = fork_int(order, 0, 2)  # child then parent / parent then child / child only
        steps = [[(child, oc), (par, op)], [(par, op), (child, oc)], [(child, oc)]][order]
        form = fork_int(form, 1, 2)  # reset / reset(relative)
        subset = fork_int(subset, 0, 1)
        sub = [None, [par, child]][subset]
        only_shard(order * 4 + form * 2 + subset, P)
        st = {"j": 0, "plan_end": None}

        def plan():
            try:
                for d, off in steps:
                    yield Msg("set", d, off, group="g")
                yield Msg("wait", None, group="g")
            finally:
                st["plan_end"] = st["j"]

        gen = bpp.reset_positions_wrapper(plan() if form == 1 else bpp.relative_set_wrapper(plan(), sub), sub)
        fail = fork_int(fail_at, 0, 6)
        if fail == 6:
            fail = 10**6
        sets = []
        try:
            m = gen.send(None)
            while True:
                j = st["j"]
                st["j"] = j + 1
                if j == fail:
                    goal("failure-injected")
                    m = gen.throw(genlab.Boom("device", j))
                    continue
                if m.command == "set":
                    sets.append((m.obj, m.args[0], j))
                    m.obj._pos = m.args[0]
                m = gen.send(None)
        except (StopIteration, genlab.Boom):
            pass
        who = ("", "reset_positions_wrapper", "reset(relative)")[form] + "[device+component]"
        tags = []
        pe = st["plan_end"] if st["plan_end"] is not None else 10**6
        body = [x for x in sets if x[2] < pe]
        tail = {d: v for d, v, j in sets if j >= pe}
        if st["plan_end"] is not None and not (fail < 10**6 and fail >= pe):
            for d in {d for d, _, _ in body}:
                goal("moved")
                if d not in tail:
                    tags.append(f"{who}:moved-device-not-commanded-back")
                elif tail[d] != init[d]:
                    tags.append(f"{who}:reset-target-is-not-initial-position")
        return ";".join(sorted(set(tags)))

    return h


def make_relplans(P):
    """The real rel_* plans, natively: every in-scan target is the initial position plus the absolute plan's target, and the
    motors are sent back to where they started, on success and when a message fails."""
    import bluesky.plans as bp
    from vlib.symx import fork_range, notrace
    from harnesses.c25_scans import Det, Motor, consume

    PLANS = ["rel_scan", "rel_list_scan", "rel_log_scan", "rel_grid_scan", "rel_adaptive_scan"]

    def run(name, init, fail):
        m1, m2, det = Motor("m1"), Motor("m2"), Det()
        pos = {"m1": init[0], "m2": init[1]}
        absolute = init == (0.0, 0.0)
        if name == "rel_scan":
            gen = bp.rel_scan([det], m1, -1.0, 1.0, 3)
        elif name == "rel_list_scan":
            gen = bp.rel_list_scan([det], m1, [0.5, 1.5], m2, [-1.0, 2.0])
        elif name == "rel_log_scan":
            gen = bp.rel_log_scan([det], m1, 0.0, 1.0, 3)
        elif name == "rel_grid_scan":
            gen = bp.rel_grid_scan([det], m1, 0.0, 1.0, 2, m2, -1.0, 0.0, 2)
        else:
            gen = bp.rel_adaptive_scan([det], "det", m1, 0.0, 1.0, 0.2, 0.5, 1.0, False)
        # wrap: throw at message index `fail`
        info = {"closed_before_failure": False}

        def failing(g):
            j = 0
            r = None
            try:
                m = g.send(None)
                while True:
                    if m.command == "close_run" and j < fail:
                        info["closed_before_failure"] = True  # the failure (if any) hits the clean-up that follows the run
                    if j == fail:
                        j += 1
                        m = g.throw(genlab.Boom("device", fail))
                        continue
                    j += 1
                    r = yield m
                    m = g.send(r)
            except StopIteration:
                return
        try:
            runs, problems = consume(failing(gen), pos)
        except genlab.Boom:
            runs = None
        return pos, runs, info["closed_before_failure"]

    def h(plan: int, i1: int, i2: int, fail: int) -> str:
        pi = fork_int(plan, 0, len(PLANS) - 1)
        a, b = [0.0, 3.0, -2.5][fork_int(i1, 0, 2)], [0.0, 7.0][fork_int(i2, 0, 1)]
        f = fork_range(fail, 0, 40)  # 40: nothing fails
        only_shard(pi * 3 + f, P)
        with notrace():
            name = PLANS[pi]
            pos0, runs0, _ = run(name, (0.0, 0.0), 10**6)
            pos, runs, in_cleanup = run(name, (a, b), f if f < 40 else 10**6)
            tags = []
            if f < 40 and in_cleanup:
                return ""  # the reset (or the unstaging before it) itself was made to fail: nothing to demand
            if pos["m1"] != a or pos["m2"] != b:
                tags.append(f"{name}:motors-not-returned-to-their-initial-positions")
            if f == 40 and runs and runs0:
                goal("completed")
                p0, p1 = runs0[0]["points"], runs[0]["points"]
                if len(p0) != len(p1):
                    tags.append(f"{name}:number-of-points-depends-on-the-initial-position")
                else:
                    for x, y in zip(p0, p1):
                        if abs(y["m1"] - (x["m1"] + a)) > 1e-9 or abs(y["m2"] - (x["m2"] + b)) > 1e-9:
                            tags.append(f"{name}:point-is-not-initial-position-plus-offset")
            if f < 40:
                goal("failure-injected")
            return ";".join(sorted(set(tags)))

    return h


def _fns_rel():
    import bluesky.plans as bp

    return [bp.rel_scan, bp.rel_list_scan, bp.rel_log_scan, bp.rel_grid_scan, bp.rel_adaptive_scan]


register(Harness("c24_component", "C24", make_component, {"quick": dict(shards=12, budget_s=200, per_path_s=20)},
                 goals=["moved", "failure-injected"], functions=_fns,
                 symbolic="a device and one of its non-pseudo child components (component.parent is the device), both with symbolic real positions and offsets; order child/parent, parent/child, child only; "
                 "reset_positions_wrapper alone or around relative_set_wrapper; devices None or listed; failing message index",
                 out_of_bound="deeper component trees", float_model="real", require_exhaustive=True))
register(Harness("c24_relplans", "C24", make_relplans, {"quick": dict(shards=15, budget_s=300, per_path_s=30)},
                 goals=["completed", "failure-injected"], functions=_fns_rel, mode="schedule",
                 symbolic="plan in {rel_scan, rel_list_scan, rel_log_scan, rel_grid_scan, rel_adaptive_scan} with fixed arguments; initial positions from {0, 3, -2.5} x {0, 7}; the index of a failing message in [0, 40) or none",
                 out_of_bound="other arguments of those plans (the wrappers are covered symbolically by c24_relative); rel_spiral plans", stubs="a message consumer stands in for the RunEngine", require_exhaustive=True))
