"""C15 / C16 -- events contain exactly the readings bundled; descriptors carry the configuration current when made.

Generated bundle programs run through the real RunEngine / RunBundler in the lab: a program is K *bundle descriptions*
(symbolic index into a catalogue of bundle kinds: stream, devices read, a duplicate read, an illegal checkpoint /
configure / second create inside the bundle, save / drop / empty save, optional configure or checkpoint before it).
Every operation is wrapped in try/except by the plan so that a rejected message does not end the program.
The reference model (from the statement) predicts which messages are rejected, which events exist, their stream,
seq_num, data keys and values, and for every descriptor its data keys and the configuration value of each object.
"""
from vlib import oracles, sweep
from vlib.harness import Harness, register
from vlib.relab import Det, Dev
from vlib.symx import fork_range, goal, notrace, only_shard
from harnesses.c01_documents import OUT, STUBS

# (pre-op, stream, [devices read in order], inside-op, ending)
CATALOGUE = [
    (None, "A", ["d0"], None, "save"),
    (None, "A", ["d0", "d1"], None, "save"),
    (None, "A", ["d0", "d1", "d0"], None, "save"),  # duplicate read of d0: key collision with itself
    (None, "A", ["d0"], None, "drop"),
    (None, "A", [], None, "save"),  # empty save
    (None, "B", ["d2"], None, "save"),
    (None, "B", ["d0"], None, "save"),
    ("cfg0", "A", ["d0"], None, "save"),
    ("cfg0", "B", ["d0"], None, "save"),
    (None, "A", ["d0"], "checkpoint", "save"),
    (None, "A", ["d0"], "cfg0", "save"),
    (None, "B", ["d0", "d2"], None, "save"),
    ("checkpoint", "A", ["d0", "dx"], None, "save"),  # dx's key overlaps d0's
    (None, "A", ["d0"], "create", "save"),
    ("cfg1", "A", ["d0", "d1"], None, "save"),
    (None, "B", ["d2"], None, "drop"),
]
FULL = None  # built lazily: the full product used by the thorough tier


class CfgDet(Det):
    pass


def build(prog, log):
    def factory(lab):
        from bluesky.utils import Msg

        devs = dict(d0=Det("d0", lab, keys=["k0"]), d1=Det("d1", lab, keys=["k1"]), d2=Det("d2", lab, keys=["k2", "k2b"]), dx=Det("dx", lab, keys=["k0"]))

        def attempt(msg, tag):
            try:
                r = yield msg
                log.append((tag, "ok", r))
            except Exception as e:  # noqa
                log.append((tag, "rejected", type(e).__name__))

        def plan():
            yield Msg("open_run")
            yield Msg("checkpoint")
            for bi, (pre, stream, reads, inside, ending) in enumerate(prog):
                if pre == "checkpoint":
                    yield from attempt(Msg("checkpoint"), (bi, "pre"))
                elif pre in ("cfg0", "cfg1"):
                    d = devs["d" + pre[-1]]
                    yield from attempt(Msg("configure", d, d.cfg + 1), (bi, "pre"))
                yield from attempt(Msg("create", name=stream), (bi, "create"))
                for ri, name in enumerate(reads):
                    yield from attempt(Msg("read", devs[name]), (bi, "read", ri))
                    if ri == 0 and inside is not None:
                        if inside == "checkpoint":
                            yield from attempt(Msg("checkpoint"), (bi, "inside"))
                        elif inside == "cfg0":
                            yield from attempt(Msg("configure", devs["d0"], devs["d0"].cfg + 1), (bi, "inside"))
                        elif inside == "create":
                            yield from attempt(Msg("create", name="B"), (bi, "inside"))
                yield from attempt(Msg(ending), (bi, "end"))
            yield Msg("close_run")

        return plan(), devs

    return factory


KEYS = dict(d0=["k0"], d1=["k1"], d2=["k2", "k2b"], dx=["k0"])


def reference(prog):
    """Predicted outcome per attempted message, events and descriptor contents."""
    exp = {}
    events = []  # (stream, seq, {key: device})
    stream_objs, counters, cfg = {}, {}, dict(d0=0, d1=0, d2=0, dx=0)
    desc_cfg = {}  # stream -> {dev: cfg value} as of the current descriptor
    for bi, (pre, stream, reads, inside, ending) in enumerate(prog):
        if pre == "checkpoint":
            exp[(bi, "pre")] = "ok"
        elif pre in ("cfg0", "cfg1"):
            d = "d" + pre[-1]
            cfg[d] += 1
            exp[(bi, "pre")] = "ok"
            for s, objs in stream_objs.items():
                if d in objs:
                    desc_cfg[s] = {o: cfg[o] for o in objs}
        exp[(bi, "create")] = "ok"
        got = []
        for ri, name in enumerate(reads):
            collide = any(set(KEYS[name]) & set(KEYS[o]) for o in got)
            exp[(bi, "read", ri)] = "rejected" if collide else "ok"
            if not collide:
                got.append(name)
            if ri == 0 and inside is not None:
                exp[(bi, "inside")] = "rejected"
        if ending == "drop":
            exp[(bi, "end")] = "ok"
            continue
        if not got:
            exp[(bi, "end")] = "ok"  # empty save: nothing emitted, no seq_num consumed
            continue
        if stream in stream_objs and set(stream_objs[stream]) != set(got):
            exp[(bi, "end")] = "rejected"
            continue
        exp[(bi, "end")] = "ok"
        if stream not in stream_objs:
            stream_objs[stream] = list(got)
            desc_cfg[stream] = {o: cfg[o] for o in got}
        counters[stream] = counters.get(stream, 0) + 1
        events.append((stream, counters[stream], {k: o for o in got for k in KEYS[o]}, dict(desc_cfg[stream])))
    return exp, events


def oracle(obs, prog, log):
    tags = []
    if obs.stuck or obs.state != "idle":
        return ["engine-stuck-or-not-idle"]
    call = obs.calls[0]
    if call["outcome"] != "ret":
        return [f"call-ended-with-{call['exc_type']}"]
    exp, events = reference(prog)
    got = {t: how for t, how, _ in log}
    for t, how in exp.items():
        g = got.get(t)
        if g is None:
            tags.append("attempted-message-has-no-outcome")
        elif g != how:
            kind = t[1] if t[1] != "end" else prog[t[0]][4]
            tags.append(f"{kind}-{'accepted-but-must-be-rejected' if how == 'rejected' else 'rejected-but-is-legal'}")
    if any(h == "rejected" for h in exp.values()):
        goal("rejection-expected")
    docs = obs.docs
    descs = {d["uid"]: d for n, d in docs if n == "descriptor"}
    evs = [d for n, d in docs if n == "event"]
    if len(evs) != len(events):
        tags.append("number-of-events-differs-from-the-saved-non-empty-bundles")
        return sorted(set(tags))
    emitted_desc_idx = {d["uid"]: i for i, (n, d) in enumerate(docs) if n == "descriptor"}
    last_desc = {}
    for (stream, seq, keymap, dcfg), ev in zip(events, evs):
        goal("event")
        d = descs.get(ev["descriptor"])
        if d is None:
            tags.append("event-without-descriptor")
            continue
        if d.get("name") != stream:
            tags.append("event-in-the-wrong-stream")
        if ev["seq_num"] != seq:
            tags.append("event-seq_num-not-consecutive-within-its-stream")
        if set(ev["data"].keys()) != set(keymap.keys()):
            tags.append("event-data-keys-are-not-exactly-the-bundled-readings")
        else:
            for k, o in keymap.items():
                base = 10.0 + KEYS[o].index(k)
                if ev["data"][k] != base:
                    tags.append("event-value-is-not-the-reading-taken-in-the-bundle")
        if set(d["data_keys"].keys()) != set(keymap.keys()):
            tags.append("descriptor-data-keys-differ-from-the-event's")
        if emitted_desc_idx[d["uid"]] > docs.index(("event", ev)):
            tags.append("descriptor-emitted-after-its-event")
        # C16: configuration recorded in the descriptor
        for o, val in dcfg.items():
            rec = d.get("configuration", {}).get(o, {}).get("data", {}).get(o + "_cfg")
            if rec != val:
                tags.append("descriptor-configuration-is-not-the-one-current-when-it-was-made")
        if stream in last_desc and last_desc[stream][1] != dcfg:
            goal("reconfigured")
            if last_desc[stream][0] == d["uid"]:
                tags.append("event-after-configure-still-references-the-old-descriptor")
            elif set(descs[last_desc[stream][0]]["data_keys"]) != set(d["data_keys"]):
                tags.append("data-keys-changed-by-configure")
        last_desc[stream] = (d["uid"], dcfg)
    stop = next((d for n, d in docs if n == "stop"), None)
    want = {}
    for s, q, _, _ in events:
        want[s] = max(want.get(s, 0), q)
    if stop is not None and {k: v for k, v in stop.get("num_events", {}).items() if v} != want:
        tags.append("num_events-differs-from-the-events-emitted")
    return sorted(set(tags))


def _full():
    global FULL
    if FULL is None:
        FULL = []
        for pre in (None, "cfg0", "cfg1", "checkpoint"):
            for stream in ("A", "B"):
                for reads in ([], ["d0"], ["d1"], ["d0", "d1"], ["d0", "d2"], ["d0", "d1", "d0"], ["d0", "dx"], ["d2"]):
                    for inside in (None, "checkpoint", "cfg0", "create"):
                        for ending in ("save", "drop"):
                            if inside and not reads:
                                continue
                            FULL.append((pre, stream, reads, inside, ending))
    return FULL


def make(P):
    K = P["K"]

    def h(b1: int, b2: int, b3: int, b4: int) -> str:
        cat = _full() if P.get("full") else CATALOGUE
        idx = [fork_range(b, 0, len(cat) - 1) for b in [b1, b2, b3, b4][:K]]
        only_shard(idx[0] + len(cat) * idx[1] if K > 1 else idx[0], P)
        prog = [cat[i] for i in idx]
        with notrace():
            log = []
            obs = sweep.run_case(build(prog, log), (), "resume", followup=False)
            return ";".join(oracle(obs, prog, log))

    return h


def _fns():
    from bluesky.bundlers import RunBundler
    from bluesky.run_engine import RunEngine

    return [RunBundler.create, RunBundler.read, RunBundler.save, RunBundler.drop, RunBundler.configure, RunBundler._prepare_stream, RunEngine._checkpoint,
            RunEngine._configure, RunEngine._create, RunEngine._read, RunEngine._save, RunEngine._drop]


SYM = ("program of K bundle descriptions, each a symbolic index into a catalogue (stream A/B; devices read incl. a duplicate read and a device whose key overlaps another's; "
       "checkpoint / configure / second create inside the bundle; save, drop or empty save; configure or checkpoint before the bundle)")
for prop, name in (("C15", "c15_bundles"), ("C16", "c16_bundles")):
    register(Harness(name, prop, make, {"quick": dict(K=3, shards=16, budget_s=300, per_path_s=30), "thorough": dict(K=4, shards=128, budget_s=3000, per_path_s=30)},
                     goals=["event", "rejection-expected", "reconfigured"], functions=_fns, mode="schedule", symbolic=SYM,
                     out_of_bound=OUT + "; more than K bundles; external assets in bundles; interruptions between bundles (C03/C05)", stubs=STUBS, require_exhaustive=True))
    register(Harness(name + "_full", prop, make, {"quick": dict(K=1, full=True, shards=16, budget_s=300, per_path_s=30), "thorough": dict(K=2, full=True, shards=128, budget_s=3000, per_path_s=30)},
                     goals=["event", "rejection-expected"], functions=_fns, mode="schedule", symbolic=SYM + " -- full product of the description fields instead of the catalogue",
                     out_of_bound=OUT, stubs=STUBS, require_exhaustive=True))
