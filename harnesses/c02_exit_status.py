"""C02 -- exit status, reason and raised exception reflect how the run ended (RE-lab sweep with faults)."""
from vlib import oracles, reharness
from vlib.harness import Harness, register
from harnesses.c01_documents import OUT, STUBS, SYM, _fns

PLANS_Q = ["scan2", "bare", "cleanup", "nested_runs", "staged_monitor", "failpause", "defer_failpause", "cleared_sleep"]
PLANS_T = PLANS_Q + ["count2", "flymon", "grid2x2", "fly1", "rel_scan2"]
register(Harness("c02_sweep", "C02", lambda P: reharness.make_sweep(P, oracles.c02_exit_status, plans=PLANS_Q if P["tier"] == "quick" else PLANS_T),
                 {"quick": dict(shards=16, budget_s=300, per_path_s=30), "thorough": dict(shards=48, budget_s=3000, per_path_s=30)},
                 goals=["paused", "resumed", "suspended", "interrupted"], functions=_fns, mode="schedule", symbolic=SYM, out_of_bound=OUT, stubs=STUBS,
                 require_exhaustive=True))
register(Harness("c02_faults", "C02", lambda P: reharness.make_sweep(P, oracles.c02_exit_status, plans=["scan2", "staged_monitor", "nested_runs", "flymon"] if P["tier"] == "quick" else [p for p in PLANS_T if p not in ("failpause", "defer_failpause", "cleared_sleep")],
                                                                       kinds=["pause"] if P["tier"] == "quick" else ["pause", "suspend", "stop"],
                                                                       decisions=["resume"], faults=True),
                 {"quick": dict(shards=16, budget_s=300, per_path_s=30), "thorough": dict(shards=64, budget_s=3000, per_path_s=30)},
                 goals=["device-failure-surfaced", "paused"], functions=_fns, mode="schedule",
                 symbolic=SYM + "; plus one device fault: protocol call j raises, or the status returned by call j fails", out_of_bound=OUT + "; device faults on the three corpus plans built for failed pauses without cleanup (failpause, defer_failpause, cleared_sleep): swept without faults only; a device fault combined with a pause that is then answered by abort (untriaged oracle disagreement, see DESIGN 9.1b)", stubs=STUBS,
                 require_exhaustive=True))
register(Harness("c02_settle", "C02", lambda P: reharness.make_sweep(P, oracles.c02_exit_status, plans=["late_wait", "scan2"] if P["tier"] == "quick" else PLANS_T + ["late_wait"],
                                                                       kinds=["pause"], decisions=["resume"], faults=True, run_kw=dict(settle_paused=True), ctx=True),
                 {"quick": dict(shards=16, budget_s=300, per_path_s=30), "thorough": dict(shards=64, budget_s=3000, per_path_s=30)},
                 goals=["device-failure-surfaced", "paused"], functions=_fns, mode="schedule",
                 symbolic=SYM + "; one device fault; virtual time advances while the engine is paused, so a pending status can fail during the pause", out_of_bound=OUT, stubs=STUBS,
                 require_exhaustive=True))
