"""C36 -- stream datums concatenate and consolidate into consistent array shapes.

(a) c36_concat (traced): up to three StreamDatum documents whose index and seq_num bounds are unbounded symbolic
integers (each non-empty, seq span = index span), descriptor and stream_resource drawn from two values each, go
through the real ``concatenate_stream_datums`` in the order given.  Reference: the call is accepted iff all share
descriptor and resource and SOME ordering chains them (stop == next start); the result covers [min start, max stop)
in indices, and in seq_nums when those chain the same way.

(b) c36_chunks (schedule): the real ConsolidatorBase / CSVConsolidator with join_method, join_chunks, chunk_shape
(length 0..3, entries 1..5), multiplier (none, 1..3) and datum shape (0..2 dims, sizes 1..6) chosen by solver forks
consumes 0..3 contiguous datums of 1..3 rows each, optionally with skipped seq_nums.  After every datum:
``len(chunks) == len(shape)``, every chunk > 0 and ``sum(chunks[d]) == shape[d]`` (a (0,) entry for an empty
dimension), every consumed seq_num maps to its row index and that row exists.
"""
import itertools

from vlib.harness import Harness, register
from vlib.symx import assume, fork_bool, fork_int, goal, notrace, only_shard


def make_concat(P):
    K = P["K"]

    def h(n: int, a1: int, b1: int, s1: int, a2: int, b2: int, s2: int, a3: int, b3: int, s3: int, d2: int, d3: int, r2: int, r3: int) -> str:
        from bluesky.callbacks.tiled_writer import concatenate_stream_datums

        k = fork_int(n, 1, K)
        raw = [(a1, b1, s1, 0, 0), (a2, b2, s2, fork_int(d2, 0, 1), fork_int(r2, 0, 1)), (a3, b3, s3, fork_int(d3, 0, 1), fork_int(r3, 0, 1))][:k]
        for a, b, s, _, _ in raw:
            assume(b > a)
        docs = [dict(uid=f"sd{i}", stream_resource=f"r{r}", descriptor=f"d{d}", indices=dict(start=a, stop=b), seq_nums=dict(start=s, stop=s + (b - a)))
                for i, (a, b, s, d, r) in enumerate(raw)]
        try:
            out = concatenate_stream_datums(*docs)
            accepted = True
        except ValueError:
            accepted = False
        same = all(d == raw[0][3] and r == raw[0][4] for _, _, _, d, r in raw)
        chain = None
        for perm in itertools.permutations(range(k)):
            if all(raw[perm[i]][1] == raw[perm[i + 1]][0] for i in range(k - 1)):
                chain = perm
                break
        should = same and chain is not None
        if k >= 2 and should:
            goal("accepted-contiguous")
        if k >= 2 and same and chain is None:
            goal("rejected-gap")
        if k >= 2 and not same:
            goal("rejected-mixed")
        if k == 3 and chain is not None and chain != (0, 1, 2):
            goal("out-of-order")
        if accepted != should:
            return "contiguous-set-rejected" if should else ("non-contiguous-set-accepted" if same else "mixed-descriptor-or-resource-accepted")
        if not accepted:
            return ""
        lo = min(a for a, _, _, _, _ in raw)
        hi = max(b for _, b, _, _, _ in raw)
        if out["indices"]["start"] != lo or out["indices"]["stop"] != hi:
            return "combined-index-range-wrong"
        seq_chain = all(raw[chain[i]][2] + (raw[chain[i]][1] - raw[chain[i]][0]) == raw[chain[i + 1]][2] for i in range(k - 1))
        if seq_chain:
            s_lo = raw[chain[0]][2]
            if out["seq_nums"]["start"] != s_lo or out["seq_nums"]["stop"] != s_lo + (hi - lo):
                return "combined-seq_num-range-wrong"
        if out["descriptor"] != docs[0]["descriptor"] or out["stream_resource"] != docs[0]["stream_resource"]:
            return "result-references-changed"
        return ""

    return h


def make_chunks(P):
    def h(cls: int, jm: int, jc: int, nc: int, c1: int, c2: int, c3: int, mult: int, nd: int, s1: int, s2: int, k: int, l1: int, l2: int, l3: int, skip: bool) -> str:
        ci = fork_int(cls, 0, 1) if P.get("classes", True) else 0
        jmi = fork_int(jm, 0 if ci else 1, 2)  # 0: class default (CSV only; the base default is concat), 1: stack, 2: concat
        jci = fork_int(jc, 0 if ci else 1, 2)  # 0: class default (CSV only), 1: True, 2: False
        ndim = fork_int(nd, 0, 2)
        ncs = fork_int(nc, 0, 3)
        only_shard(ci + 2 * jmi + 6 * jci + 18 * ndim + 54 * ncs, P)
        cs = tuple(fork_int(c, 1, P["cmax"]) for c in (c1, c2, c3)[:ncs])
        MU = P.get("mults", [0, 1, 2, 3])
        mu = MU[fork_int(mult, 0, len(MU) - 1)]
        dshape = [fork_int(s, 1, P["smax"]) for s in (s1, s2)[:ndim]]
        kk = fork_int(k, 0, P["K"])
        lens = [fork_int(x, 1, P.get("lmax", 3)) for x in (l1, l2, l3)[:kk]]
        sk = fork_bool(skip)
        with notrace():
            from bluesky.consolidators import ConsolidatorBase, CSVConsolidator

            params = {}
            if jmi:
                params["join_method"] = ["stack", "concat"][jmi - 1]
            if jci:
                params["join_chunks"] = jci == 1
            if ncs:
                params["chunk_shape"] = cs
            if mu:
                params["multiplier"] = mu
            klass = [ConsolidatorBase, CSVConsolidator][ci]
            sres = dict(uid="sr", mimetype=["application/octet-stream", "text/csv;header=absent"][ci], uri="file://localhost/data/x", data_key="img", parameters=params)
            desc = dict(uid="d", data_keys={"img": dict(dtype="array" if dshape else "number", shape=list(dshape), source="s", external="STREAM:")})
            cons = klass(sres, desc)
            tags = []
            row, seq = 0, 1
            expect = {}
            for step in range(kk + 1):
                if step:
                    n = lens[step - 1]
                    nseq = n - 1 if (sk and n > 1) else n  # a datum whose last row carries no seq_num (a skipped frame)
                    cons.consume_stream_datum(dict(uid=f"sd{step}", stream_resource="sr", descriptor="d", indices=dict(start=row, stop=row + n), seq_nums=dict(start=seq, stop=seq + nseq)))
                    for j in range(nseq):
                        expect[seq + j] = row + j
                    row, seq = row + n, seq + nseq
                    goal("consumed")
                shape = cons.shape
                if len(cs) > len(shape):
                    try:
                        cons.chunks
                        tags.append("chunk_shape-longer-than-shape-accepted")
                    except ValueError:
                        goal("chunk_shape-too-long-rejected")
                    continue
                try:
                    chunks = cons.chunks
                except Exception as e:  # noqa
                    tags.append(f"chunks-raised-{type(e).__name__}")
                    continue
                if len(chunks) != len(shape):
                    tags.append("chunks-have-a-different-number-of-dimensions-than-shape")
                    continue
                for dim, parts in zip(shape, chunks):
                    if sum(parts) != dim:
                        tags.append("chunk-sizes-do-not-add-up-to-the-dimension")
                    if any(p <= 0 for p in parts) and not (dim == 0 and tuple(parts) == (0,)):
                        tags.append("non-positive-chunk")
                if len(chunks) and len(chunks[0]) > 1:
                    goal("several-chunks")
                got = dict(cons._seqnums_to_indices_map)
                if got != expect:
                    tags.append("seq_num-to-row-map-wrong")
                nrows = shape[0] if shape else 0
                per_row = (cons.datum_shape[0] if (cons.join_method == "concat" and len(cons.datum_shape) > 0) else 1)
                if nrows != row * per_row:
                    tags.append("leading-dimension-differs-from-the-rows-consumed")
            return ";".join(sorted(set(tags)))

    return h


def _fns_a():
    from bluesky.callbacks.tiled_writer import concatenate_stream_datums

    return [concatenate_stream_datums]


def _fns_b():
    from bluesky.consolidators import ConsolidatorBase

    return [ConsolidatorBase.__init__, ConsolidatorBase.shape.fget, ConsolidatorBase.chunks.fget, ConsolidatorBase.consume_stream_datum]


register(Harness("c36_concat", "C36", make_concat, {"quick": dict(K=3, shards=1, budget_s=240, per_path_s=30), "thorough": dict(K=3, shards=1, budget_s=600, per_path_s=60)},
                 goals=["accepted-contiguous", "rejected-gap", "rejected-mixed", "out-of-order"], functions=_fns_a, mode="traced",
                 symbolic="1..3 stream datums: index start/stop and seq_num start are unbounded symbolic integers (non-empty, seq span = index span), descriptor and resource each one of two values, any order",
                 out_of_bound="more than 3 datums; empty datums (start == stop); datums whose seq span differs from their index span", require_exhaustive=True))
register(Harness("c36_chunks", "C36", make_chunks, {"quick": dict(K=2, lmax=2, cmax=2, smax=3, mults=[0, 2], classes=False, shards=32, budget_s=300, per_path_s=30), "thorough": dict(K=2, lmax=3, cmax=2, smax=3, shards=64, budget_s=3000, per_path_s=30)},
                 goals=["consumed", "several-chunks", "chunk_shape-too-long-rejected"], functions=_fns_b, mode="schedule",
                 symbolic="class in {ConsolidatorBase, CSVConsolidator (thorough tier)}; join_method in {stack, concat}; join_chunks in {True, False} (and the class defaults for CSV); chunk_shape of length 0..3 with entries 1..cmax; "
                 "multiplier in {none,1,2,3} (quick: none, 2); datum shape of 0..2 dims with sizes 1..smax; 0..K consumed datums of 1..lmax rows, contiguous from row 0, optionally each with a trailing skipped frame",
                 out_of_bound="variable-sized (None) dimensions (documented NotImplementedError); non-contiguous datums; HDF5/multipart subclasses (same chunks property; file naming is C37)", require_exhaustive=True))
