"""C18 -- subscriptions live exactly as long as they were asked to (RunEngine level).

Symbolic: a permanent subscription of callable cA (none / 'all' / 'event' / 'start'), the per-call ``subs`` argument
of RE(...) (none / cA / {'event': cA} / cB / {'stop': cA, 'start': cB}), an in-plan subscription (none / Msg subscribe
cA 'all' never unsubscribed / Msg subscribe cA 'event' with a later Msg unsubscribe / subs_wrapper with cB), a pause
at a symbolic loop step with decision resume / abort / stop, an RE(...) call attempted (and rejected) while paused
(with or without its own subs), and whether the permanent token is unsubscribed before the next call.  A second,
plain call follows on the same engine.  Reference from the statement, per emitted document and callable: with at
least one live subscription whose filter matches, the callable receives the document (at least once, at most once
per live token); with none it receives nothing.  Live: permanent -- until its token is unsubscribed; per-call -- every
document of its call, no document of any other call; in-plan -- from its subscribe message to its unsubscribe message
or the end of the call.
"""
from vlib import sweep
from vlib.harness import Harness, register
from vlib.relab import Det, Motor
from vlib.symx import fork_int, fork_range, goal, notrace, only_shard
from harnesses.c01_documents import OUT, STUBS

PERM = [None, "all", "event", "start"]


def scenario(perm, pc, ip, reqs, decision, mid, unsub_perm):
    log = []  # (who, doc id)
    master = []  # (name, doc id, number of messages handed to the engine so far, call number)
    state = dict(call=1, perm_tok=None, perm_live=False)

    def cA(name, doc):
        log.append(("A", id(doc)))

    def cB(name, doc):
        log.append(("B", id(doc)))

    keep = []

    def factory(lab):
        import bluesky.preprocessors as bpp
        from bluesky.utils import Msg

        m = Motor("m1", lab)
        det = Det("det", lab, [m])

        def point():
            yield Msg("checkpoint")
            yield Msg("create", name="primary")
            yield Msg("read", det)
            yield Msg("save")

        def middle():
            yield from point()
            yield from point()

        def plan():
            yield Msg("open_run")
            yield Msg("checkpoint")
            if ip == 1:
                yield Msg("subscribe", None, cA, "all")
            elif ip == 2:
                tok = yield Msg("subscribe", None, cA, "event")
            if ip == 3:
                yield from bpp.subs_wrapper(middle(), {"all": [cB]})
            else:
                yield from middle()
            if ip == 2:
                yield Msg("unsubscribe", None, token=tok)
            yield from point()
            yield Msg("close_run")

        return plan(), dict(m1=m, det=det)

    def setup(lab):
        def rec(name, doc):
            keep.append(doc)
            master.append((name, id(doc), len(lab.msgs), state["call"]))

        lab.RE.subscribe(rec)
        if PERM[perm] is not None:
            state["perm_tok"] = lab.RE.subscribe(cA, PERM[perm])
            state["perm_live"] = True

    subs = [None, cA, {"event": [cA]}, cB, {"stop": [cA], "start": [cB]}][pc]
    mid_out = []

    def mid_fn(lab):
        from bluesky.utils import Msg

        try:
            if mid == 1:
                lab.RE([Msg("null")])
            else:
                lab.RE([Msg("null")], cB)
            mid_out.append("accepted")
        except RuntimeError:
            mid_out.append("rejected")

    second = {}

    def post(lab, obs):
        from bluesky.utils import Msg

        state["call"] = 2
        second["ran"] = False
        if str(lab.RE.state) != "idle" or obs.stuck:
            return
        if unsub_perm and state["perm_tok"] is not None:
            lab.RE.unsubscribe(state["perm_tok"])
            state["perm_live"] = False
        n0 = len(lab.msgs)
        second["n0"] = n0
        out = lab.call(lab.RE, [Msg("open_run"), Msg("create", name="primary"), Msg("read", obs.devices["det"]), Msg("save"), Msg("close_run")])
        second["ran"] = out[0] == "ret"

    obs = sweep.run_case(factory, reqs, decision, subs=subs, setup=setup, followup=False, mid_paused=mid_fn if mid else None, post=post)
    return obs, log, master, state, mid_out, second, (PERM[perm], pc, ip)


def oracle(obs, log, master, state, mid_out, second, cfg, unsub_perm):
    perm, pc, ip = cfg
    tags = []
    if mid_out and mid_out[0] != "rejected":
        tags.append("RE-call-accepted-while-paused")
    if mid_out:
        goal("rejected-call-while-paused")
    msgs = obs.msgs
    sub_at = [i for i, m in enumerate(msgs) if m.command == "subscribe"]
    unsub_at = [i for i, m in enumerate(msgs) if m.command == "unsubscribe"]
    ip_who, ip_filter = {0: (None, None), 1: ("A", "all"), 2: ("A", "event"), 3: ("B", "all")}[ip]
    pc_match = {0: {}, 1: {"A": "all"}, 2: {"A": "event"}, 3: {"B": "all"}, 4: {"A": "stop", "B": "start"}}[pc]
    delivered = {}
    for who, did in log:
        delivered[(who, did)] = delivered.get((who, did), 0) + 1
    known = {did for _, did, _, _ in master}
    if any(did not in known for _, did in log):
        tags.append("callback-received-a-document-that-was-not-emitted")

    def m(filt, name):
        return filt is not None and (filt == "all" or filt == name)

    for name, did, n, call in master:
        for who in ("A", "B"):
            live = []
            if who == "A" and perm is not None and (call == 1 or not (unsub_perm)) and m(perm, name):
                live.append("permanent")
            if call == 1:
                if m(pc_match.get(who), name):
                    live.append("per-call")
                if ip_who == who and m(ip_filter, name) and sub_at and n >= sub_at[0] + 1 and not (unsub_at and n >= unsub_at[0] + 1):
                    live.append("in-plan")
            got = delivered.get((who, did), 0)
            if live and got == 0:
                tags.append("+".join(live) + "-subscription-missed-a-document-while-live")
            elif not live and got:
                if call == 2:
                    tags.append("unsubscribed-permanent-subscription-still-receives" if (who == "A" and perm is not None and m(perm, name)) else "temporary-subscription-outlived-its-call")
                else:
                    tags.append("callback-received-a-document-without-a-live-subscription")
            elif got > len(live):
                tags.append("document-delivered-more-often-than-live-subscriptions")
            if len(live) >= 2:
                goal("same-callable-twice")
            if call == 2 and live:
                goal("permanent-across-calls")
    if second.get("ran"):
        goal("second-call")
        if obs.lab.RE._temp_callback_ids:
            tags.append("temporary-tokens-left-after-the-call")
    return sorted(set(tags))


def make(P):
    from vlib import reharness

    _T = {}

    def h(perm: int, pc: int, ip: int, k1: int, dec: int, mid: int, up: bool) -> str:
        PERMS, IPS = P.get("perms", [0, 1, 2, 3]), P.get("ips", [0, 1, 2, 3])
        perm_ = PERMS[fork_int(perm, 0, len(PERMS) - 1)]
        pc_ = fork_int(pc, 0, 4)
        ip_ = IPS[fork_int(ip, 0, len(IPS) - 1)]
        only_shard(perm_ + 4 * pc_ + 20 * ip_, P)
        with notrace():
            if ip_ not in _T:
                _T[ip_] = _dry(ip_)
        T = _T[ip_]
        k = fork_range(k1, 0, T + 1)
        reqs = [] if k > T else [dict(step=k, kind="pause")]
        decision = ["resume", "abort", "stop"][fork_int(dec, 0, 2)] if reqs else "resume"
        MIDS = P.get("mids", [0, 1, 2])
        mid_ = MIDS[fork_int(mid, 0, len(MIDS) - 1)] if reqs else 0
        unsub = (True if up else False) if perm_ else False
        with notrace():
            obs, log, master, state, mid_out, second, cfg = scenario(perm_, pc_, ip_, reqs, decision, mid_, unsub)
            reharness.std_goals(obs)
            if any(c["api"] in ("abort", "stop") and c["outcome"] == "ret" for c in obs.calls):
                goal("ended-by-abort-or-stop")
            ctx = reharness.context(obs)
            tags = oracle(obs, log, master, state, mid_out, second, cfg, unsub)
            if P.get("call2_only"):  # C06: only the clause about the next call
                tags = [t for t in tags if t in ("temporary-subscription-outlived-its-call", "temporary-tokens-left-after-the-call")]
            return ";".join(f"{t}@{ctx}" for t in tags)

    def _dry(ip_):
        obs = scenario(0, 0, ip_, (), "resume", 0, False)[0]
        return obs.calls[0]["steps"]

    return h


def _fns():
    from bluesky.run_engine import Dispatcher, RunEngine

    return [RunEngine.__call__, RunEngine._clear_call_cache, RunEngine.subscribe, RunEngine.unsubscribe, RunEngine._subscribe, RunEngine._unsubscribe,
            Dispatcher.subscribe, Dispatcher.unsubscribe, Dispatcher.process, RunEngine._run, RunEngine.resume, RunEngine.abort, RunEngine.stop]


register(Harness("c18_re", "C18", make, {"quick": dict(mids=[0, 2], shards=32, budget_s=300, per_path_s=30), "thorough": dict(shards=80, budget_s=3000, per_path_s=30)},
                 goals=["same-callable-twice", "permanent-across-calls", "second-call", "rejected-call-while-paused", "paused", "resumed", "ended-by-abort-or-stop"], functions=_fns, mode="schedule",
                 symbolic="permanent subscription of cA in {none, all, event, start}; RE(...) subs in {none, cA, {'event': cA}, cB, {'stop': cA, 'start': cB}}; in-plan subscription in "
                 "{none, Msg subscribe cA 'all', Msg subscribe cA 'event' + Msg unsubscribe, subs_wrapper cB}; pause at loop step k1 in [0,T] or none; decision in {resume, abort, stop}; "
                 "rejected RE(...) while paused in {none, plain, with subs}; permanent token unsubscribed before the second call or not",
                 out_of_bound=OUT + "; bound methods and garbage collection of callables (c18_dispatcher uses a bound method); more than one in-plan subscription; halt", stubs=STUBS,
                 require_exhaustive=True))
