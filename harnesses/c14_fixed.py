"""C14 on fixed interleavings -- two runs with different keys, interrupted at every point.

The generated-interleaving harness (c14_keys) bounds the number of operations; the two corpus plans here are longer
interleavings (one with few checkpoints: a run is closed while the other has events since the last checkpoint),
swept with a pause or a suspension at every loop step.  Oracle: well-formed documents per run (C01), per-run event
numbering 1..N (C05), and the same events per run as the uninterrupted execution (C03).
"""
from vlib import oracles, reharness
from vlib.harness import Harness, register
from harnesses.c01_documents import OUT, STUBS, _fns


from harnesses.c03_same_data import _ref


def _oracle(obs, case=None):
    tags = list(oracles.c01_documents(obs)) + list(oracles.c05_numbering(obs))
    tags += list(oracles.c03_same_data(obs, _ref(case["plan"])))
    return sorted(set(tags))


register(Harness("c14_fixed", "C14", lambda P: reharness.make_sweep(P, _oracle, plans=["interleaved", "interleaved_sparse"], kinds=["pause", "suspend"], decisions=["resume"]),
                 {"quick": dict(shards=8, budget_s=300, per_path_s=30), "thorough": dict(shards=8, budget_s=1200, per_path_s=30)},
                 goals=["paused", "resumed", "suspended"], functions=_fns, mode="schedule",
                 symbolic="plan in {interleaved, interleaved_sparse}; a pause (resumed) or a 1 s suspension at loop step k1", out_of_bound=OUT, stubs=STUBS, require_exhaustive=True))
