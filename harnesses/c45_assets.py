"""C45 -- collected stream assets line up with the stream's event numbering.

(a) c45_collect (RE-lab, schedule): one or two fake detectors that write stream assets the way ophyd-async's
StandardDetector does (``get_index`` = frames written so far; ``collect_asset_docs(index)`` yields the StreamResource
once and a StreamDatum for [last emitted, index)) are collected up to C times into one declared stream; how many
frames each detector wrote before each collect is symbolic.  Oracle over the emitted documents: per data key the
StreamDatums chain from index 0, seq_nums = indices + 1 with the same span, detectors collected together stop at
the same (minimum) index, RunStop.num_events[stream] = frames declared, no collect is rejected.

(b) c45_step (traced, one inductive step): the real ``RunBundler._pack_external_assets`` /
``_pack_seq_nums_into_stream_datum`` on a bundler whose stream counter is an unbounded symbolic c >= 1 and datums
[e, m) with symbolic e < m for one or two data keys (invariant: c == e + 1).  Afterwards every datum has
seq_nums [c, c + (m - e)), the returned width is m - e, so that collect's ``counter += width`` re-establishes the
invariant c' == m + 1; datums of different widths in one collect are rejected.
"""
import types

from vlib import sweep
from vlib.harness import Harness, register
from vlib.symx import assume, fork_bool, fork_int, goal, notrace, only_shard
from harnesses.c01_documents import OUT, STUBS


class SDet:
    """Writes stream assets like ophyd-async's StandardDetector."""

    parent = None

    def __init__(self, name, lab):
        self.name = name
        self.lab = lab
        self.written = 0
        self.emitted = 0
        self.resource_sent = False

    def describe_collect(self):
        return {self.name + "-img": {"source": "lab", "dtype": "number", "shape": [], "external": "STREAM:"}}

    def get_index(self):
        return self.written

    def collect_asset_docs(self, index=None):
        index = self.written if index is None else index
        if index > self.emitted:
            uid = self.name + "-sres"
            if not self.resource_sent:
                self.resource_sent = True
                yield "stream_resource", dict(uid=uid, data_key=self.name + "-img", mimetype="application/x-hdf5", uri="file://localhost/data/" + self.name + ".h5", parameters={"dataset": "/data"})
            yield "stream_datum", dict(uid=f"{uid}/{self.emitted}", stream_resource=uid, descriptor="", indices=dict(start=self.emitted, stop=index), seq_nums=dict(start=0, stop=0))
            self.emitted = index


STREAMS = ["primary", "second"]


def build(ndet, incs, log, off=0, nstreams=1):
    def factory(lab):
        import bluesky.plan_stubs as bps

        dets = [SDet(f"det{i}", lab) for i in range(ndet)]
        for d in dets:
            d.written = d.emitted = off  # frames already in the file before this run

        def plan():
            yield from bps.open_run()
            for sname in STREAMS[:nstreams]:
                yield from bps.declare_stream(*dets, name=sname, collect=True)
            for c, row in enumerate(incs):
                for d, inc in zip(dets, row):
                    d.written += inc
                sname = STREAMS[c % nstreams]
                log.append(("collect", c, [d.written for d in dets], sname))
                yield from bps.collect(*dets, name=sname)
            yield from bps.close_run()

        return plan(), {d.name: d for d in dets}

    return factory


def oracle(obs, ndet, log, off=0):
    tags = []
    call = obs.calls[0]
    if call["outcome"] != "ret":
        return [f"collect-rejected-a-valid-progression-with-{call['exc_type']}"]
    if obs.state != "idle":
        return ["engine-not-idle"]
    docs = obs.docs
    sres_key = {}
    desc_stream = {d["uid"]: d["name"] for n, d in docs if n == "descriptor"}
    per = {}  # (stream, data key) -> datums in emission order
    allkey = {}
    for n, d in docs:
        if n == "stream_resource":
            sres_key[d["uid"]] = d["data_key"]
        elif n == "stream_datum":
            key = sres_key.get(d["stream_resource"])
            if key is None:
                tags.append("stream-datum-without-stream-resource")
                continue
            if d["descriptor"] not in desc_stream:
                tags.append("stream-datum-not-attached-to-a-descriptor-of-the-run")
                continue
            per.setdefault((desc_stream[d["descriptor"]], key), []).append(d)
            allkey.setdefault(key, []).append(d)
    # indices: per data key contiguous from the first frame of the run (whatever stream they went to)
    for key, sds in allkey.items():
        nxt = off
        for d in sds:
            a, b = d["indices"]["start"], d["indices"]["stop"]
            if a != nxt:
                tags.append("index-ranges-are-not-contiguous-from-the-first-frame")
            if b <= a:
                tags.append("empty-or-reversed-stream-datum")
            nxt = b
    # seq_nums: per stream contiguous from 1, as wide as the indices
    frames = {}
    for (stream, key), sds in per.items():
        nxt = 1
        for d in sds:
            a, b = d["indices"]["start"], d["indices"]["stop"]
            s_, t_ = d["seq_nums"]["start"], d["seq_nums"]["stop"]
            if s_ != nxt:
                tags.append("seq_nums-are-not-contiguous-from-1-within-the-stream")
            if t_ - s_ != b - a:
                tags.append("seq_num-range-is-not-as-wide-as-the-index-range")
            nxt = t_
        frames.setdefault(stream, set()).add(sum(d["indices"]["stop"] - d["indices"]["start"] for d in sds))
    finals = {k: v[-1]["indices"]["stop"] for k, v in allkey.items()}
    want_final = min(log[-1][2]) if log else off
    if log and want_final > off:
        goal("frames-collected")
        if len(finals) != ndet or any(f != want_final for f in finals.values()):
            tags.append("detectors-collected-together-did-not-advance-to-the-common-minimum-index")
    if ndet == 2 and log and any(w[0] != w[1] for _, _, w, _ in log):
        goal("detectors-out-of-step")
    if off:
        goal("index-does-not-start-at-0")
    if len(frames) >= 2:
        goal("two-streams")
    stop = next((d for n, d in docs if n == "stop"), None)
    for stream in STREAMS:
        ne = (stop or {}).get("num_events", {}).get(stream, 0)
        want = frames.get(stream, {0})
        if len(want) != 1:
            tags.append("detectors-of-one-stream-declared-different-numbers-of-frames")
        elif ne != next(iter(want)):
            tags.append("num_events-differs-from-the-frames-declared")
    return sorted(set(tags))


def make(P):
    C = P["C"]

    def h(nd: int, nc: int, i1: int, i2: int, i3: int, i4: int, i5: int, i6: int, i7: int, i8: int, off: int, ns: int) -> str:
        ndet = fork_int(nd, 1, 2)
        ncol = fork_int(nc, 1, C)
        o = fork_int(off, 0, P["omax"])
        nst = fork_int(ns, 1, 2)
        flat = [fork_int(x, 0, P["imax"]) for x in [i1, i2, i3, i4, i5, i6, i7, i8][: ncol * ndet]]
        only_shard(ndet + 2 * ncol + 8 * flat[0] + 32 * flat[1] if len(flat) > 1 else ndet + 2 * ncol + 8 * flat[0], P)
        incs = [flat[c * ndet:(c + 1) * ndet] for c in range(ncol)]
        with notrace():
            log = []
            obs = sweep.run_case(build(ndet, incs, log, o, nst), (), "resume", followup=False)
            return ";".join(oracle(obs, ndet, log, o))

    return h


def make_step(P):
    def h(c: int, e: int, m: int, two: bool, m2: int) -> str:
        import logging

        from bluesky.bundlers import RunBundler
        from event_model import EventModelValueError

        assume(c >= 1)
        assume(e >= 0)
        assume(c == e + 1)
        assume(m > e)
        emitted = []

        async def emit(name, doc):
            emitted.append((name, doc))

        rb = RunBundler({}, False, emit, None, logging.getLogger("verif"), strict_pre_declare=False)
        rb._run_start_uid = "run"
        keys = ["k0", "k1"] if fork_bool(two) else ["k0"]
        ddoc = dict(uid="desc", data_keys={k: dict(source="s", dtype="number", shape=[], external="STREAM:") for k in keys})
        rb._descriptors["primary"] = types.SimpleNamespace(descriptor_doc=ddoc)
        rb._sequence_counters["primary"] = c
        stops = [m] + ([m2] if len(keys) == 2 else [])
        if len(keys) == 2:
            assume(m2 > e)
        docs = []
        for k, stop in zip(keys, stops):
            rb._stream_resource_data_keys["r-" + k] = k
            docs.append(("stream_datum", dict(uid="sd-" + k, stream_resource="r-" + k, descriptor="", indices=dict(start=e, stop=stop), seq_nums=dict(start=0, stop=0))))
        coro = rb._pack_external_assets(docs, message_stream_name="primary")
        try:
            coro.send(None)
            return "pack-suspended-unexpectedly"
        except StopIteration as s:
            width = s.value
        except EventModelValueError:
            if len(keys) == 2 and stops[0] != stops[1]:
                goal("unequal-widths-rejected")
                return ""
            return "valid-datums-rejected"
        if len(keys) == 2 and stops[0] != stops[1]:
            return "datums-of-different-widths-accepted-in-one-collect"
        goal("packed")
        if width != m - e:
            return "returned-width-is-not-the-number-of-frames"
        for _, d in emitted:
            if d["seq_nums"]["start"] != c or d["seq_nums"]["stop"] != c + (m - e):
                return "seq_nums-do-not-continue-the-stream-counter"
            if d["seq_nums"]["start"] != d["indices"]["start"] + 1 or d["seq_nums"]["stop"] != d["indices"]["stop"] + 1:
                return "seq_nums-do-not-line-up-with-indices"
            if d["descriptor"] != "desc":
                return "descriptor-not-filled-in"
        if len(emitted) != len(keys):
            return "not-every-datum-emitted"
        if rb._sequence_counters["primary"] + width != m + 1:  # collect() adds the returned width: invariant restored
            return "invariant-not-restored"
        return ""

    return h


def _fns():
    from bluesky.bundlers import RunBundler

    return [RunBundler.collect, RunBundler._pack_external_assets, RunBundler._pack_seq_nums_into_stream_datum, RunBundler.declare_stream, RunBundler.close_run]


register(Harness("c45_collect", "C45", make, {"quick": dict(C=3, imax=2, omax=1, shards=16, budget_s=300, per_path_s=30), "thorough": dict(C=3, imax=3, omax=2, shards=64, budget_s=3000, per_path_s=30)},
                 goals=["frames-collected", "detectors-out-of-step", "index-does-not-start-at-0", "two-streams"], functions=_fns, mode="schedule",
                 symbolic="1 or 2 stream-asset-writing detectors; 1..C collects; frames written by each detector before each collect in [0, imax]; frames already written before the run in [0, omax]; one stream, or two declared streams collected alternately",
                 out_of_bound=OUT + "; more than C collects, 2 detectors or 2 streams; interruptions between collects; detectors that also produce events", stubs=STUBS,
                 require_exhaustive=True))
register(Harness("c45_step", "C45", make_step, {"quick": dict(shards=1, budget_s=120, per_path_s=30), "thorough": dict(shards=1, budget_s=600, per_path_s=60)},
                 goals=["packed", "unequal-widths-rejected"], functions=_fns, mode="traced", opaque_text=True,
                 symbolic="stream counter c >= 1, last emitted index e >= 0 with c == e + 1 (the invariant), new index m > e (and m2 > e for a second data key): unbounded integers; one or two data keys",
                 out_of_bound="the asyncio plumbing of collect() itself (covered concretely by c45_collect); collect's `counter += width` line is re-stated by the harness", require_exhaustive=True))
