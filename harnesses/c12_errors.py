"""C12 -- device errors reach the plan at the message that caused them (RE-lab fault sweep)."""
from vlib import oracles, reharness
from vlib.harness import Harness, register
from harnesses.c01_documents import OUT, STUBS, _fns

PLANS_Q = ["scan2", "late_wait", "staged_monitor", "flymon", "configure_mid"]
PLANS_T = PLANS_Q + ["count2", "bare", "nested_runs", "grid2x2", "declared", "rel_scan2"]
SYM = ("plan index; one device fault: protocol call j raises (DeviceError or an AttributeError subclass), or the status returned by call j fails, j over every device call "
       "of the plan; optionally a pause (resumed) at loop step k1")
register(Harness("c12_faults", "C12", lambda P: reharness.make_sweep(P, oracles.c12_errors, plans=PLANS_Q if P["tier"] == "quick" else PLANS_T, kinds=["pause"],
                                                                      decisions=["resume"], faults="attr", ctx=True),
                 {"quick": dict(shards=32, budget_s=300, per_path_s=30), "thorough": dict(shards=64, budget_s=3000, per_path_s=30)},
                 goals=["device-failure-surfaced", "paused"], functions=_fns, mode="schedule", symbolic=SYM, out_of_bound=OUT + "; plans that swallow the error and continue", stubs=STUBS,
                 require_exhaustive=True))
