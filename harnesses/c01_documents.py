"""C01 -- every opened run is a well-formed document stream, whatever happens (RE-lab sweep)."""
from vlib import oracles, reharness
from vlib.harness import Harness, register

PLANS_Q = ["scan2", "bare", "cleanup", "staged_monitor", "nested_runs", "flymon", "declared"]
PLANS_T = PLANS_Q + ["count2", "fly1", "scan3", "rel_scan2", "list_scan2", "grid2x2", "adaptive", "tune"]


def _oracle(obs, case):
    tags = oracles.c01_documents(obs)
    if obs.stuck:
        tags.append("engine-stuck")
    return tags


def _fns():
    from bluesky.bundlers import RunBundler
    from bluesky.run_engine import RunEngine

    return [RunEngine.__call__, RunEngine._run, RunEngine.resume, RunEngine._rewind, RunEngine._request_pause_coro, RunEngine.request_suspend,
            RunEngine._abort_coro, RunEngine._stop_coro, RunEngine._halt_coro, RunEngine._open_run, RunEngine._close_run, RunBundler.open_run,
            RunBundler.close_run, RunBundler.save, RunBundler.collect, RunBundler.rewind]


STUBS = ["VLoop (virtual-time asyncio SelectorEventLoop, one iteration per pump step)", "bluesky.run_engine.threading.Event pumps the loop; no background thread",
         "request_pause() replaced by scheduling _request_pause_coro (its future.result() would block the only thread)", "fake devices (vlib/relab.py)"]
SYM = ("plan index (corpus), pump step k1 in [0, T+3] at which one external request lands (T = steps of the uninterrupted plan), request kind in "
       "{pause, deferred pause, abort, stop, halt, suspend 1 s}, decision in {resume, abort, stop, halt} applied each time a call ends paused (<= 3 times)")
OUT = "plans outside the corpus; more than two external requests per call; real threads; SIGINT"

register(Harness("c01_sweep", "C01", lambda P: reharness.make_sweep(P, _oracle, plans=PLANS_Q if P["tier"] == "quick" else PLANS_T),
                 {"quick": dict(shards=16, budget_s=300, per_path_s=30), "thorough": dict(shards=48, budget_s=3000, per_path_s=30)},
                 goals=["paused", "resumed", "suspended", "interrupted", "request-after-last-message"], functions=_fns, mode="schedule", symbolic=SYM,
                 out_of_bound=OUT, stubs=STUBS, require_exhaustive=True))
register(Harness("c01_faults", "C01", lambda P: reharness.make_sweep(P, _oracle, plans=["scan2", "staged_monitor", "flymon"] if P["tier"] == "quick" else PLANS_T,
                                                                       kinds=["pause"] if P["tier"] == "quick" else ["pause", "suspend", "abort"],
                                                                       decisions=["resume"] if P["tier"] == "quick" else ["resume", "abort"], faults=True),
                 {"quick": dict(shards=16, budget_s=300, per_path_s=30), "thorough": dict(shards=64, budget_s=3000, per_path_s=30)},
                 goals=["device-failure-surfaced", "paused"], functions=_fns, mode="schedule",
                 symbolic=SYM + "; plus one device fault: protocol call j raises, or the status returned by call j fails (j over every device call of the plan)",
                 out_of_bound=OUT, stubs=STUBS, require_exhaustive=True))


def _poke(lab):
    lab.poke_on_stop = True  # a document consumer that reacts to every RunStop by updating the monitored signal


register(Harness("c01_poke", "C01", lambda P: reharness.make_sweep(P, _oracle, plans=["monitor_mid", "staged_monitor", "monitor_meta"], extra=dict(setup=_poke),
                                                                     kinds=["pause", "abort", "suspend"], decisions=["resume", "abort"]),
                 {"quick": dict(shards=16, budget_s=300, per_path_s=30), "thorough": dict(shards=16, budget_s=1200, per_path_s=30)},
                 goals=["paused", "resumed"], functions=_fns, mode="schedule",
                 symbolic=SYM + " -- on plans with monitors, with a RunStop consumer that updates the monitored signal while the RunStop is being dispatched",
                 out_of_bound=OUT, stubs=STUBS, require_exhaustive=True))
