"""C39 -- the documents a LiveDispatcher re-emits form a valid run.

A raw run is composed with event_model (streams 'primary' with two descriptors -- as after a configure -- and
'baseline'); the order of its events is symbolic (each of L events comes from descriptor primary#1, primary#2 or
baseline).  It is fed, once or twice in a row, through the real LiveDispatcher or a subclass (key-changing, renaming
via stream_name, decimating, routing by raw stream name).  Oracle over the re-emitted documents only: schema-valid,
start first / stop last, references resolve, events of each stream (= name of the descriptor they point to)
numbered 1..N in emission order, RunStop.num_events = those N per stream.
"""
from vlib.harness import Harness, register
from vlib.symx import fork_int, goal, notrace, only_shard

KINDS = ["pass-through", "key-changing", "renaming", "decimating", "routing", "id_args"]


def raw_run(prog):
    import event_model

    docs = []
    run = event_model.compose_run()
    docs.append(("start", run.start_doc))
    dk_p = {"a": dict(dtype="number", shape=[], source="x"), "b": dict(dtype="number", shape=[], source="y")}
    dk_b = {"c": dict(dtype="number", shape=[], source="z")}
    bundles = {}

    def desc(which):
        if which not in bundles:
            name = "baseline" if which == 1 else "primary"
            bundles[which] = run.compose_descriptor(name=name, data_keys=dict(dk_b if which == 1 else dk_p), configuration={"dev": {"data": {"cfg": which}, "timestamps": {"cfg": 0.0}, "data_keys": {"cfg": dict(dtype="number", shape=[], source="c")}}})
            docs.append(("descriptor", bundles[which].descriptor_doc))
        return bundles[which]

    seq = {}
    for i, which in enumerate(prog):
        b = desc(which)
        name = "baseline" if which == 1 else "primary"
        seq[name] = seq.get(name, 0) + 1
        data = {"c": float(i)} if which == 1 else {"a": float(i), "b": float(-i)}
        docs.append(("event", b.compose_event(data=data, timestamps={k: 0.0 for k in data}, seq_num=seq[name])))
    docs.append(("stop", run.compose_stop()))
    return docs


def make_dispatcher(kind):
    from bluesky.callbacks.stream import LiveDispatcher

    if kind == 0:
        return LiveDispatcher()

    class KeyChanging(LiveDispatcher):
        def event(self, doc):
            doc = dict(doc)
            doc["data"] = {f"modified_{k}": -abs(v) for k, v in doc["data"].items()}
            return super().event(doc)

    class Renaming(LiveDispatcher):
        def event(self, doc):
            self.process_event(doc, stream_name="derived")

    class Decimating(LiveDispatcher):
        def start(self, doc):
            self._n = 0
            super().start(doc)

        def event(self, doc):
            self._n += 1
            if self._n % 2 == 0:
                self.process_event(doc)

    class Routing(LiveDispatcher):
        def event(self, doc):
            self.process_event(doc, stream_name=self.raw_descriptors[doc["descriptor"]]["name"])

    class IdArgs(LiveDispatcher):
        def event(self, doc):
            doc = dict(doc)
            doc["data"] = {k: 2 * v for k, v in doc["data"].items()}
            self.process_event(doc, id_args=("scaled", 2))

    return [None, KeyChanging, Renaming, Decimating, Routing, IdArgs][kind]()


def check_run(docs, expected_events):
    from event_model import DocumentNames, schema_validators

    tags = []
    names = [n for n, _ in docs]
    if not names or names[0] != "start" or names[-1] != "stop" or names.count("start") != 1 or names.count("stop") != 1:
        return ["re-emitted-run-is-not-start...stop"]
    for n, d in docs:
        try:
            schema_validators[DocumentNames[n]].validate(d)
        except Exception:  # noqa
            tags.append("re-emitted-document-is-not-schema-valid")
    start, stop = docs[0][1], docs[-1][1]
    descs = {}
    per_stream = {}
    nev = 0
    for n, d in docs[1:-1]:
        if n == "descriptor":
            if d["run_start"] != start["uid"]:
                tags.append("descriptor-does-not-reference-the-re-emitted-start")
            if d["uid"] in descs:
                tags.append("descriptor-uid-reused")
            descs[d["uid"]] = d
        elif n == "event":
            nev += 1
            dd = descs.get(d["descriptor"])
            if dd is None:
                tags.append("event-references-no-re-emitted-descriptor")
                continue
            if set(d["data"]) != set(dd["data_keys"]):
                tags.append("event-data-keys-differ-from-its-descriptor")
            per_stream.setdefault(dd.get("name", "<unnamed>"), []).append(d["seq_num"])
        else:
            tags.append("unexpected-document-inside-the-run")
    if stop["run_start"] != start["uid"]:
        tags.append("stop-does-not-reference-the-re-emitted-start")
    if nev != expected_events:
        tags.append("number-of-re-emitted-events-differs-from-what-the-subclass-emitted")
    for s, nums in per_stream.items():
        if nums != list(range(1, len(nums) + 1)):
            tags.append("events-of-a-stream-are-not-numbered-1..N")
        if len(nums) >= 2:
            goal("stream-with-two-events")
    if len(per_stream) >= 2:
        goal("two-streams")
    want = {s: len(v) for s, v in per_stream.items()}
    got = {s: v for s, v in stop.get("num_events", {}).items() if v}
    if got != want:
        tags.append("stop-num_events-differs-from-the-events-emitted-per-stream")
    return tags


def make(P):
    L = P["L"]

    def h(e1: int, e2: int, e3: int, e4: int, e5: int, n: int, kind: int, runs: int, boom: int) -> str:
        nn = fork_int(n, 0, L)
        k = fork_int(kind, 0, len(KINDS) - 1)
        first = fork_int(e1, 0, 2) if nn else 0
        only_shard(k + 6 * nn + 36 * first, P)
        prog = ([first] + [fork_int(e, 0, 2) for e in [e2, e3, e4, e5][: nn - 1]]) if nn else []
        nruns = fork_int(runs, 1, 2)
        j = fork_int(boom, 0, nn)  # a second consumer raises on its j-th event of every run (0: never)
        with notrace():
            tags = []
            ld = make_dispatcher(k)
            out = []
            seen = [0]

            def fragile(name, doc):
                seen[0] += 1
                if seen[0] == j:
                    raise RuntimeError("consumer failed")

            ld.subscribe(lambda name, doc: out.append((name, doc)))
            ld.subscribe(fragile, "event")
            for r in range(nruns):
                del out[:]
                seen[0] = 0
                for name, doc in raw_run(prog):
                    try:
                        ld(name, doc)
                    except RuntimeError:  # what a Dispatcher with ignore_exceptions=True upstream does: log and carry on
                        goal("consumer-raised")
                expected = len(prog) // 2 if k == 3 else len(prog)
                tags += check_run(list(out), expected)
                if r == 1:
                    goal("second-run")
            return ";".join(sorted(set(tags)))

    return h


def _fns():
    from bluesky.callbacks.stream import LiveDispatcher

    return [LiveDispatcher.start, LiveDispatcher.descriptor, LiveDispatcher.event, LiveDispatcher.process_event, LiveDispatcher.stop, LiveDispatcher.emit]


register(Harness("c39_live", "C39", make, {"quick": dict(L=4, shards=16, budget_s=300, per_path_s=30), "thorough": dict(L=5, shards=32, budget_s=3000, per_path_s=30)},
                 goals=["two-streams", "stream-with-two-events", "second-run", "consumer-raised"], functions=_fns, mode="schedule",
                 symbolic="number n<=L of raw events and, per event, its raw descriptor in {primary#1, baseline, primary#2}; dispatcher in {LiveDispatcher, key-changing, renaming (stream_name), "
                 "decimating, routing by raw stream name, explicit id_args} subclasses; one or two runs through the same instance; a second consumer raising on its j-th event (upstream carries on)",
                 out_of_bound="more than L events per run; event pages; subclasses that pass config; raw runs that are themselves invalid", require_exhaustive=True))
