"""C13 through plan_mutator -- a yield inside a mutated plan receives the response to its own message.

Reuses the C21 generator-lab harness (host / head / tail programs, nested one-message tail, scripted driver) whose
trace and plan-side logs record every value each yield receives; only the small quick bound is registered here, the
full one runs under C21.
"""
from vlib.harness import Harness, register
from harnesses import c21_insert

register(Harness("c13_mutator", "C13", c21_insert.make, {"quick": dict(L=2, Ls=1, S=3, nact=4, nested=True, shards=16, budget_s=240, per_path_s=20),
                                                          "thorough": dict(L=2, Ls=2, S=4, nact=4, nested=True, shards=32, budget_s=3000, per_path_s=30)},
                 goals=["inserted", "nested-insertion"], functions=c21_insert._fns,
                 symbolic="as c21_insert (host, head and tail programs, insertion form and position, nested one-message tail, driver script), smaller bound",
                 out_of_bound="see c21_insert", require_exhaustive=True))
