"""C03 -- pause/resume and suspend/release do not change the recorded data (RE-lab sweep vs the uninterrupted run)."""
from vlib import corpus, oracles, reharness, sweep
from vlib.harness import Harness, register
from harnesses.c01_documents import OUT, STUBS, _fns

PLANS_Q = ["count2", "scan2", "rel_scan2", "list_scan2", "nested_runs", "bare", "adaptive", "count_norewind", "configure_late"]
PLANS_T = PLANS_Q + ["scan3", "grid2x2", "tune", "staged_monitor", "declared"]
_REF = {}


def _ref(plan):
    if plan not in _REF:
        _REF[plan] = sweep.run_case(corpus.CORPUS[plan], (), followup=False).docs
    return _REF[plan]


def _oracle(obs, case):
    tags = list(oracles.c03_same_data(obs, _ref(case["plan"])))
    # The two known in-flight defects (a 'monitor' / a 'read' whose response the plan uses, interrupted while being processed)
    # get a context of their own, whichever of the interruptions hit it and whatever its kind, so that the known-finding
    # entries stay few and mask nothing else ('!' = do not append the generic context).
    ints = oracles.interruptions(obs)
    inflight = {obs.msgs[x[1] - 1].command for x in ints if x[4] and 0 < x[1] <= len(obs.msgs)}
    out = []
    for t in tags:
        if "-raised-" in t and not t.startswith("!"):
            if "monitor" in inflight and "IllegalMessageSequence" in t:
                t = "!" + t + "@interrupted-during-monitor"
            elif "read" in inflight and ("TypeError" in t or "KeyError" in t):
                t = "!" + t + "@interrupted-during-read"
        out.append(t)
    return out


SYM = ("plan index (built-in step plans and hand plans incl. nested run keys), pump step k1 in [0, T+3] of a pause or a 1 s suspension, resume after every pause; "
       "in the two-interruption harness a second pause/suspension 0..window steps after the first")
for name, two in (("c03_one", False), ("c03_two", True)):
    register(Harness(name, "C03", (lambda two: lambda P: reharness.make_sweep(P, _oracle, plans=(PLANS_Q if not two else ["scan2", "nested_runs"]) if P["tier"] == "quick" else PLANS_T,
                                                                               kinds=["pause", "suspend"], decisions=["resume"], two=two, ctx=True))(two),
                     {"quick": dict(shards=16, window=6, budget_s=300, per_path_s=30), "thorough": dict(shards=48, window=16, budget_s=3000, per_path_s=30)},
                     goals=["paused", "resumed", "suspended"], functions=_fns, mode="schedule", symbolic=SYM,
                     out_of_bound=OUT + "; devices whose reading depends on the trigger count; plans that are not checkpointed per point", stubs=STUBS + ["detector reading = deterministic function of motor positions"],
                     require_exhaustive=True))
