"""C10 -- interrupting a non-resumable section aborts cleanly (RE-lab sweep over plans with clear_checkpoint)."""
from vlib import oracles, reharness
from vlib.harness import Harness, register
from harnesses.c01_documents import OUT, STUBS, _fns

PLANS = ["cleanup", "two_runs_cleared", "failpause", "defer_failpause", "cleared_rewindable"]
SYM = "plan index (clear_checkpoint at different positions, one or two runs, planned pauses), loop step k1 of a pause / deferred pause / suspension; optionally a second request"
register(Harness("c10_one", "C10", lambda P: reharness.make_sweep(P, oracles.c10_nonresumable, plans=PLANS, kinds=["pause", "defer", "suspend"], decisions=["resume", "abort"]),
                 {"quick": dict(shards=16, budget_s=300, per_path_s=30), "thorough": dict(shards=16, budget_s=3000, per_path_s=30)},
                 goals=["interrupted"], functions=_fns, mode="schedule", symbolic=SYM, out_of_bound=OUT, stubs=STUBS, require_exhaustive=True))
register(Harness("c10_two", "C10", lambda P: reharness.make_sweep(P, oracles.c10_nonresumable, plans=["cleanup", "two_runs_cleared"], kinds=["pause", "defer", "suspend"],
                                                                   decisions=["resume"], two=True),
                 {"quick": dict(shards=16, window=6, budget_s=300, per_path_s=30), "thorough": dict(shards=48, window=14, budget_s=3000, per_path_s=30)},
                 goals=["interrupted"], functions=_fns, mode="schedule", symbolic=SYM, out_of_bound=OUT, stubs=STUBS, require_exhaustive=True))
