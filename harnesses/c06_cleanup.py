"""C06 -- devices are always left cleaned up when the RunEngine goes idle (RE-lab sweep with faults, ledger oracle)."""
from vlib import oracles, reharness
from vlib.harness import Harness, register
from harnesses.c01_documents import OUT, STUBS, SYM, _fns

PLANS_Q = ["staged_monitor", "flymon", "scan2", "cleanup", "double_stage", "status_stage"]
PLANS_T = PLANS_Q + ["count2", "bare", "nested_runs", "grid2x2", "fly1", "rel_scan2"]
register(Harness("c06_sweep", "C06", lambda P: reharness.make_sweep(P, oracles.c06_cleanup, plans=PLANS_Q if P["tier"] == "quick" else PLANS_T),
                 {"quick": dict(shards=16, budget_s=300, per_path_s=30), "thorough": dict(shards=48, budget_s=3000, per_path_s=30)},
                 goals=["paused", "resumed", "suspended", "interrupted"], functions=_fns, mode="schedule", symbolic=SYM, out_of_bound=OUT + "; devices staged more than once per call",
                 stubs=STUBS, require_exhaustive=True))
register(Harness("c06_faults", "C06", lambda P: reharness.make_sweep(P, oracles.c06_cleanup, plans=["staged_monitor", "flymon", "scan2", "double_stage", "status_stage"] if P["tier"] == "quick" else PLANS_T + ["double_stage"],
                                                                       kinds=["pause"] if P["tier"] == "quick" else ["pause", "suspend"],
                                                                       decisions=["resume"], faults=True),
                 {"quick": dict(shards=16, budget_s=300, per_path_s=30), "thorough": dict(shards=64, budget_s=3000, per_path_s=30)},
                 goals=["device-failure-surfaced", "paused"], functions=_fns, mode="schedule",
                 symbolic=SYM + "; plus one device fault: protocol call j raises, or the status returned by call j fails", out_of_bound=OUT, stubs=STUBS,
                 require_exhaustive=True))
