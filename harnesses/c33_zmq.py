"""C33 -- 0MQ publishing delivers documents intact, in order, filtered by prefix; malformed frames are dropped.

The real ``Publisher.__call__`` and ``RemoteDispatcher._poll`` run over an in-memory transport (fake ``zmq`` /
``zmq.asyncio`` modules passed through the constructors' ``zmq=`` arguments) with the identity (de)serializer on
bytes.  CrossHair cannot keep ``bytes`` symbolic through ``bytes.join/split`` (C methods realise them), so byte
strings are built from solver-forked *byte classes* {space, 'a', 'b', 0xff (not UTF-8)} -- the classes the code can
tell apart (split on space, prefix equality, UTF-8 decoding of the name); lengths and the frame sequence are forked
too.  The run itself is native (schedule mode).
"""
import types

from vlib.harness import Harness, register
from vlib.symx import fork_int, goal, notrace, only_shard

ALPHA = [0x20, 0x61, 0x62, 0xFF]
NAMES = ["start", "event", "bogus"]


def _bytes(sym, maxlen, alpha=ALPHA):
    """sym: list of symbolic ints [len, b0, b1, ...] -> concrete bytes over the class alphabet."""
    n = fork_int(sym[0], 0, maxlen)
    out = []
    for i in range(n):
        out.append(alpha[fork_int(sym[1 + i], 0, len(alpha) - 1)])
    return bytes(out)


class _Bus:
    def __init__(self):
        self.frames = []


def _fake_zmq(bus):
    class Sock:
        def connect(self, url):
            pass

        def setsockopt_string(self, *a):
            pass

        def send(self, msg):
            bus.frames.append(bytes(msg))

        def close(self):
            pass

    class ASock(Sock):
        async def recv(self):
            if not bus.frames:
                raise _Drained()
            return bus.frames.pop(0)

    class Ctx:
        def socket(self, kind):
            return Sock()

        def destroy(self):
            pass

    class ACtx:
        def socket(self, kind):
            return ASock()

    return types.SimpleNamespace(Context=Ctx, PUB=1, SUB=2, SUBSCRIBE=6), types.SimpleNamespace(Context=ACtx)


class _Drained(Exception):
    pass


import asyncio  # noqa: E402


class _Loop(asyncio.AbstractEventLoop):
    def __init__(self):
        self.q = []

    def get_debug(self):
        return False

    def is_running(self):
        return False

    def is_closed(self):
        return False

    def close(self):
        pass

    def call_soon(self, f, *a):
        self.q.append((f, a))

    def drain(self):
        while self.q:
            f, a = self.q.pop(0)
            f(*a)


EXCS = [ValueError, ImportError, AttributeError, KeyError]  # what a deserializer (pickle.loads of foreign data) can raise


def reference_parse(frame, our_prefix):
    """The documented framing: b'<prefix> <name> <payload>' -> (name, payload) if deliverable, 'malformed' or None (filtered)."""
    from event_model import DocumentNames

    parts = frame.split(b" ", 2)
    if len(parts) != 3:
        return "malformed"
    prefix, name, payload = parts
    try:
        name = name.decode()
    except UnicodeDecodeError:
        return "malformed"
    if our_prefix and prefix != our_prefix:
        return None
    if name not in DocumentNames.__members__:
        return "malformed"
    if payload[:1] == b"\xff":
        return "malformed"  # the harness's deserializer rejects such a payload (see run())
    return (name, payload)


def make(P):
    import io
    import contextlib

    from bluesky.callbacks.zmq import Bluesky0MQDecodeError, Publisher, RemoteDispatcher

    NF = P["frames"]

    def h(pa0: int, pa1: int, pa2: int, pd0: int, pd1: int, pd2: int, strict: bool,
          k1: int, n1: int, x10: int, x11: int, x12: int, x13: int, k2: int, n2: int, x20: int, x21: int, x22: int, x23: int,
          k3: int, n3: int, x30: int, x31: int, x32: int, x33: int, bk: int, ex: int) -> str:
        pa = _bytes([pa0, pa1, pa2], P["plen"], alpha=P["palpha"])
        pd = _bytes([pd0, pd1, pd2], P["plen"], alpha=P["palpha"])
        st = True if strict else False
        only_shard(sum(pa) * 7 + len(pa) + sum(pd) * 13 + 3 * len(pd) + st, P)
        frames_sym = [(k1, n1, [x10, x11, x12, x13]), (k2, n2, [x20, x21, x22, x23]), (k3, n3, [x30, x31, x32, x33])][:NF]
        plan = []
        for k, n, xs in frames_sym:
            kind = fork_int(k, 0, 2)  # 0 publisher A (prefix pa), 1 publisher B (prefix b'b'), 2 raw frame
            if kind == 2:
                plan.append(("raw", _bytes(xs, P["rawlen"], alpha=P["alpha"])))
            else:
                plan.append(("pub", kind, NAMES[fork_int(n, 0, 2)], _bytes(xs, P["payload"], alpha=P["alpha"])))
        # publisher B: an unrelated prefix, or a strict extension of the dispatcher's own prefix
        pb = (pd + b"a") if (pd and any(p[0] == "pub" and p[1] == 1 for p in plan) and fork_int(bk, 0, 1) == 1) else b"b"
        exc = EXCS[fork_int(ex, 0, P.get("excs", len(EXCS)) - 1)] if any(p[0] == "pub" and p[3][:1] == b"\xff" for p in plan) else ValueError
        with notrace():
            return run(pa, pd, st, plan, pb, exc)

    def run(pa, pd, strict, plan, pb=b"b", exc=ValueError):
        bus = _Bus()
        zmq, azmq = _fake_zmq(bus)
        ident = lambda b: b  # noqa: E731

        def deser(b):
            if b[:1] == b"\xff":
                raise exc("cannot deserialize")
            return b

        pubs = [Publisher("h:1", prefix=pa, zmq=zmq, serializer=ident), Publisher("h:1", prefix=pb, zmq=zmq, serializer=ident)]
        loop = _Loop()
        disp = RemoteDispatcher("h:2", prefix=pd, loop=loop, zmq=zmq, zmq_asyncio=azmq, deserializer=deser, strict=strict)
        got = []
        disp.subscribe(lambda name, doc: got.append((name, doc)))
        disp._RemoteDispatcher__factory()
        sent = []
        for p in plan:
            if p[0] == "raw":
                bus.frames.append(p[1])
            else:
                pubs[p[1]](p[2], p[3])
        sent = list(bus.frames)
        expect, malformed_at = [], None
        for i, f in enumerate(sent):
            r = reference_parse(f, pd)
            if r == "malformed":
                goal("malformed-frame")
                if strict:
                    malformed_at = i
                    break
            elif r is not None:
                expect.append(r)
                goal("delivered")
            else:
                goal("filtered-by-prefix")
        coro = disp._poll()
        outcome = None
        with contextlib.redirect_stdout(io.StringIO()):
            try:
                coro.send(None)
                outcome = "suspended"
            except _Drained:
                outcome = "drained"
            except Bluesky0MQDecodeError:
                outcome = "decode-error"
            except Exception as e:  # noqa
                outcome = "poller-died:" + type(e).__name__
            try:
                loop.drain()
            except Exception as e:  # noqa
                outcome = "process-raised:" + type(e).__name__
        if outcome.startswith("poller-died") or outcome.startswith("process-raised"):
            return f"RemoteDispatcher:{outcome}-on-malformed-or-unknown-frame"
        if strict and malformed_at is not None:
            if outcome != "decode-error":
                return "RemoteDispatcher:strict-mode-did-not-raise-on-malformed-frame"
        elif outcome != "drained":
            return f"RemoteDispatcher:unexpected-{outcome}"
        if got != expect:
            if len(got) < len(expect):
                return "RemoteDispatcher:document-lost"
            if len(got) > len(expect):
                return "RemoteDispatcher:delivered-filtered-or-malformed-frame"
            return "RemoteDispatcher:document-altered-or-reordered"
        return ""

    return h


def _fns():
    from bluesky.callbacks.zmq import Publisher, RemoteDispatcher

    return [Publisher.__init__, Publisher.__call__, RemoteDispatcher.__init__, RemoteDispatcher._poll]


register(Harness("c33_zmq", "C33", make,
                 {"quick": dict(frames=2, payload=1, plen=1, rawlen=2, excs=2, palpha=[0x61, 0x62], alpha=[0x20, 0x61, 0xFF], shards=18, budget_s=200, per_path_s=20),
                  "thorough": dict(frames=3, payload=2, plen=2, rawlen=3, palpha=[0x61, 0x62, 0xFF], alpha=[0x20, 0x61, 0x62, 0xFF], shards=64, budget_s=2400, per_path_s=30)},
                 goals=["delivered", "filtered-by-prefix", "malformed-frame"], functions=_fns, mode="schedule",
                 symbolic="publisher prefix and dispatcher prefix: length <= plen over byte classes {a, b, 0xff}; `frames` frames, each published by publisher A "
                 "(that prefix) or B (prefix b'b' or a strict extension of the dispatcher's prefix) with name in {start, event, bogus (not a document name)} and payload of length <= `payload` over "
                 "{space, a, b, 0xff}, or a raw frame of <= rawlen bytes over the same classes; strict flag",
                 out_of_bound="bytes are class representatives, not symbolic (CrossHair realises bytes in join/split); pickle; real sockets; the Proxy",
                 stubs=["fake zmq / zmq.asyncio modules (in-memory FIFO bus: each frame delivered intact and in order)", "identity serializer on bytes; the deserializer rejects payloads starting with 0xff by raising one of ValueError / AttributeError / KeyError / ImportError (solver fork)",
                        "fake loop whose call_soon queue is drained after the poller stops"], require_exhaustive=True))
