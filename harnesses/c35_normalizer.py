"""C35 -- RunNormalizer never alters its inputs and loses nothing; the conditional backup replays the whole run.

(a) c35_normalizer: a raw run with one stream (internal key x, optionally a reserved-word key 'time', external key
img) is composed with event_model in one of three flavours -- legacy Resource + Datum, legacy-shaped StreamResource
(spec/root/resource_path/resource_kwargs) + StreamDatum, current StreamResource + StreamDatum -- with symbolic
choices of file format (HDF5 or TIFF sequence), of the parameter naming the dataset ('path', 'dataset', none), of the
number of events, per event whether its Datum arrives before or after the Event, of how Datums carry frame numbers
(not at all, running, restarting with a second Resource), of the 'filled' marker, and of legacy descriptor fields.
It is pushed through the real RunNormalizer.  Oracle: every input document deep-equals its snapshot afterwards;
the normalizer does not raise; everything emitted is schema-valid; each emitted event keeps every internal value;
each Datum referenced by an event becomes exactly one StreamDatum with indices [seq_num-1, seq_num) and seq_nums
[seq_num, seq_num+1), pointing at the event's descriptor and at a StreamResource emitted before it.

(b) c35_backup: n documents through the real _ConditionalBackup with a primary that fails at a symbolic step (once
or from then on), two backups of which one may raise at a symbolic step.
"""
import copy

from vlib.harness import Harness, register
from vlib.symx import fork_bool, fork_int, goal, notrace, only_shard


def build_run(flavour, hdf5, pk, nev, late, fm, restart, filled, reserved, dtype_str):
    import event_model

    docs = []
    run = event_model.compose_run()
    docs.append(("start", run.start_doc))
    dk = {"x": dict(dtype="number", shape=[], source="sx"), "img": dict(dtype="array", shape=[2, 2], source="si", external="FILESTORE:" if flavour == 0 else "STREAM:")}
    if reserved:
        dk["time"] = dict(dtype="number", shape=[], source="st")
    if dtype_str:
        dk["x"]["dtype_str"] = "<f8"
    desc = run.compose_descriptor(name="primary", data_keys=dk, object_keys={"dev": list(dk)}, validate=not dtype_str,
                                  configuration={"dev": {"data": {"cfg": 1}, "timestamps": {"cfg": 0.0}, "data_keys": {"cfg": dict(dtype="number", shape=[], source="c")}}})
    docs.append(("descriptor", desc.descriptor_doc))
    params = {}
    if pk == 0:
        params["path"] = "/entry/data"
    elif pk == 1:
        params["dataset"] = "/entry/data"
    params["frame_per_point"] = 1
    spec = "hdf5" if hdf5 else "AD_TIFF"
    mimetype = "application/x-hdf5" if hdf5 else "multipart/related;type=image/tiff"
    expect = []  # (datum_id or None, seq_num)

    def event(i, img, fl):
        data = {"x": float(i), "img": img}
        if reserved:
            data["time"] = 100.0 + i
        return desc.compose_event(data=data, timestamps={k: 0.0 for k in data}, seq_num=i + 1, filled=fl)

    if flavour == 0:
        res = run.compose_resource(spec=spec, root="/data", resource_path="a/b.h5", resource_kwargs=copy.deepcopy(params))
        docs.append(("resource", res.resource_doc))
        frame = 0
        for i in range(nev):
            if fm == 2 and i == restart:
                res = run.compose_resource(spec=spec, root="/data", resource_path="a/c.h5", resource_kwargs=copy.deepcopy(params))
                docs.append(("resource", res.resource_doc))
                frame = 0
            datum = res.compose_datum(datum_kwargs={"frame": frame} if fm else {"point_number": i})
            frame += 1
            fl = {} if filled == 0 else {"img": False}
            ev = event(i, datum["datum_id"], fl)
            if late[i]:
                docs += [("event", ev), ("datum", datum)]
            else:
                docs += [("datum", datum), ("event", ev)]
            expect.append((datum["datum_id"], i + 1))
    else:
        if flavour == 1:  # legacy-shaped StreamResource (event_model < 1.20)
            sres = {"uid": "sres-1", "spec": spec, "root": "/data", "resource_path": "a/b.h5", "resource_kwargs": copy.deepcopy(params), "data_key": "img", "run_start": run.start_doc["uid"]}
            docs.append(("stream_resource", sres))
            sb = None
        else:
            sb = run.compose_stream_resource(mimetype=mimetype, uri="file://localhost/data/a/b.h5", data_key="img", parameters=copy.deepcopy(params))
            docs.append(("stream_resource", sb.stream_resource_doc))
        for i in range(nev):
            data = {"x": float(i)}
            if reserved:
                data["time"] = 100.0 + i
            docs.append(("event", desc.compose_event(data=data, timestamps={k: 0.0 for k in data}, seq_num=i + 1, validate=False)))
            sd = dict(uid=f"sd-{i}", stream_resource="sres-1" if sb is None else sb.stream_resource_doc["uid"], descriptor=desc.descriptor_doc["uid"],
                      indices=dict(start=i, stop=i + 1), seq_nums=dict(start=i + 1, stop=i + 2))
            docs.append(("stream_datum", sd))
    docs.append(("stop", run.compose_stop()))
    return docs, expect


def oracle(docs, expect, flavour, reserved, out, raised, snaps):
    from event_model import DocumentNames, schema_validators

    tags = []
    for (name, doc), (_, snap) in zip(docs, snaps):
        if doc != snap:
            tags.append(f"input-{name}-document-was-modified")
    if raised:
        tags.append(f"normalizer-raised-{type(raised[0]).__name__}-on-a-valid-run")
        return tags
    for n, d in out:
        try:
            schema_validators[DocumentNames[n]].validate(d)
        except Exception:  # noqa
            tags.append(f"emitted-{n}-is-not-schema-valid")
    names = [n for n, _ in out]
    if names.count("start") != 1 or names[0] != "start" or names.count("stop") != 1 or names[-1] != "stop":
        tags.append("emitted-run-is-not-start...stop")
    in_events = [d for n, d in docs if n == "event"]
    out_events = [d for n, d in out if n == "event"]
    if len(out_events) != len(in_events):
        tags.append("number-of-events-changed")
    else:
        for a, b in zip(in_events, out_events):
            for k in ("x", "time"):
                if k in a["data"]:
                    kk = "_" + k if k == "time" else k
                    if b["data"].get(kk) != a["data"][k]:
                        tags.append("internal-event-value-lost-or-changed")
            if b["seq_num"] != a["seq_num"] or b["descriptor"] != a["descriptor"]:
                tags.append("event-numbering-or-descriptor-changed")
    sres_seen = set()
    sdat = []
    for n, d in out:
        if n == "stream_resource":
            sres_seen.add(d["uid"])
        elif n == "stream_datum":
            if d["stream_resource"] not in sres_seen:
                tags.append("stream-datum-before-or-without-its-stream-resource")
            sdat.append(d)
    desc_uid = next(d["uid"] for n, d in docs if n == "descriptor")
    if flavour == 0:
        by_id = {}
        for d in sdat:
            by_id.setdefault(d["uid"], []).append(d)
        for datum_id, seq in expect:
            got = by_id.get(datum_id, [])
            if len(got) != 1:
                tags.append("referenced-datum-did-not-become-exactly-one-stream-datum")
                continue
            d = got[0]
            if d["descriptor"] != desc_uid:
                tags.append("stream-datum-points-at-the-wrong-descriptor")
            if (d["indices"]["start"], d["indices"]["stop"]) != (seq - 1, seq) or (d["seq_nums"]["start"], d["seq_nums"]["stop"]) != (seq, seq + 1):
                tags.append("stream-datum-ranges-do-not-match-its-event")
        if len(sdat) != len(expect):
            tags.append("stream-datums-emitted-for-no-referenced-datum")
    else:
        want = [d for n, d in docs if n == "stream_datum"]
        if sdat != want:
            tags.append("stream-datum-not-passed-through-unchanged")
    return tags


def make(P):
    NEV = P["nev"]

    def h(flavour: int, hdf5: bool, pk: int, nev: int, l1: bool, l2: bool, l3: bool, fm: int, restart: int, filled: int, reserved: bool, dts: bool) -> str:
        fl = fork_int(flavour, 0, 2)
        h5 = fork_bool(hdf5)
        pk_ = fork_int(pk, 0, 2)
        n = fork_int(nev, 1, NEV)
        only_shard(fl + 3 * h5 + 6 * pk_ + 18 * n, P)
        late = [fork_bool(x) for x in (l1, l2, l3)[:n]] if fl == 0 else [False] * n
        fm_ = fork_int(fm, 0, 2) if fl == 0 else 0
        rs = fork_int(restart, 1, n - 1) if (fm_ == 2 and n >= 2) else 0
        if fm_ == 2 and n < 2:
            fm_ = 1
        fi = fork_int(filled, 0, 1) if fl == 0 else 0
        rv, ds = fork_bool(reserved), fork_bool(dts)
        with notrace():
            from bluesky.callbacks.tiled_writer import RunNormalizer

            docs, expect = build_run(fl, h5, pk_, n, late, fm_, rs, fi, rv, ds)
            snaps = copy.deepcopy(docs)
            norm = RunNormalizer()
            out, raised = [], []
            norm.subscribe(lambda name, doc: out.append((name, copy.deepcopy(doc))))
            for name, doc in docs:
                try:
                    norm(name, doc)
                except Exception as e:  # noqa
                    raised.append(e)
                    break
            if fm_ == 2:
                goal("frame-numbers-restart-with-a-second-resource")
            if any(late):
                goal("datum-after-event")
            if fl == 1:
                goal("legacy-stream-resource")
            tags = sorted(set(oracle(docs, expect, fl, rv, out, raised, snaps)))
            if fm_ and any(late):  # frame-number bookkeeping follows conversion order: name the context so that it masks nothing else
                tags = [t + "@datum-after-event-with-frame-numbers" if t == "stream-datum-ranges-do-not-match-its-event" else t for t in tags]
            return ";".join(tags)

    return h


def make_backup(P):
    N = P["n"]

    def h(n: int, fail_at: int, sticky: bool, bfail: int) -> str:
        nn = fork_int(n, 1, N)
        f = fork_int(fail_at, 0, nn)  # nn: the primary never fails
        st = fork_bool(sticky)
        bf = fork_int(bfail, 0, nn)  # the first backup raises on the bf-th document it is given (nn: never)
        with notrace():
            from bluesky.callbacks.tiled_writer import _ConditionalBackup

            docs = [("start" if i == 0 else ("stop" if i == nn - 1 and nn > 1 else "event"), {"i": i}) for i in range(nn)]
            got = [[], []]
            calls = [0]

            def primary(name, doc):
                i = doc["i"]
                if i == f or (st and i > f):
                    raise RuntimeError("primary failed")

            def b0(name, doc):
                got[0].append(doc["i"])
                calls[0] += 1
                if calls[0] - 1 == bf:
                    raise RuntimeError("backup failed")

            def b1(name, doc):
                got[1].append(doc["i"])

            cb = _ConditionalBackup(primary, [b0, b1])
            tags = []
            for name, doc in docs:
                try:
                    cb(name, doc)
                except Exception:  # noqa
                    tags.append("conditional-backup-raised")
            want = list(range(nn)) if f < nn else []
            if f < nn:
                goal("primary-failed")
            if f > 0 and f < nn:
                goal("buffered-documents-flushed")
            for i, g in enumerate(got):
                if g != want:
                    if len(g) > len(set(g)):
                        tags.append("backup-received-a-document-more-than-once")
                    elif sorted(g) == want:
                        tags.append("backup-received-documents-out-of-order")
                    elif f >= nn:
                        tags.append("backup-received-documents-although-the-primary-never-failed")
                    else:
                        tags.append("backup-missed-documents-of-the-run")
            return ";".join(sorted(set(tags)))

    return h


def _fns():
    from bluesky.callbacks.tiled_writer import RunNormalizer

    return [RunNormalizer.start, RunNormalizer.stop, RunNormalizer.descriptor, RunNormalizer.event, RunNormalizer.resource, RunNormalizer.stream_resource, RunNormalizer.stream_datum,
            RunNormalizer.datum, RunNormalizer._convert_resource_to_stream_resource, RunNormalizer._convert_datum_to_stream_datum, RunNormalizer.emit]


def _fns_b():
    from bluesky.callbacks.tiled_writer import _ConditionalBackup

    return [_ConditionalBackup.__call__]


register(Harness("c35_normalizer", "C35", make, {"quick": dict(nev=3, shards=16, budget_s=300, per_path_s=30), "thorough": dict(nev=3, shards=32, budget_s=3000, per_path_s=30)},
                 goals=["frame-numbers-restart-with-a-second-resource", "datum-after-event", "legacy-stream-resource"], functions=_fns, mode="schedule",
                 symbolic="flavour in {Resource+Datum, legacy-shaped StreamResource+StreamDatum, current StreamResource+StreamDatum}; HDF5 or TIFF; dataset parameter in {path, dataset, none}; 1..3 events; "
                 "per event Datum before/after its Event; frame numbers in {none, running, restarting with a second Resource at event r}; filled marker absent/False; reserved-word key present or not; dtype_str present or not",
                 out_of_bound="patches; event/datum pages; more than one stream or external key; filled=True events; Datums that never arrive (documented RuntimeError); more than 3 events",
                 require_exhaustive=True))
register(Harness("c35_backup", "C35", make_backup, {"quick": dict(n=5, shards=4, budget_s=120, per_path_s=30), "thorough": dict(n=7, shards=8, budget_s=1200, per_path_s=30)},
                 goals=["primary-failed", "buffered-documents-flushed"], functions=_fns_b, mode="schedule",
                 symbolic="number of documents n, the step at which the primary fails (or never), failing once or from then on, the step at which the first of two backups raises (or never)",
                 out_of_bound="more than maxlen (default 10**6) documents before the failure (documented buffer bound); more than n documents", require_exhaustive=True))
