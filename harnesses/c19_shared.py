"""C19, "every subscribed callback sees every document" for a callable that is subscribed more than once.

Reuses the C18 RunEngine-level scenario (the same callable subscribed permanently, per call and in the plan under
different document names; a pause with every decision; a second call) with its full delivery oracle: while at least
one of its subscriptions is live and matches, the callable receives the document.
"""
from vlib.harness import Harness, register
from harnesses.c01_documents import OUT, STUBS
from harnesses import c18_re

register(Harness("c19_shared", "C19", c18_re.make, {"quick": dict(perms=[0, 1], ips=[0, 2], mids=[0], shards=16, budget_s=300, per_path_s=30),
                                                     "thorough": dict(shards=80, budget_s=3000, per_path_s=30)},
                 goals=["same-callable-twice", "second-call", "paused", "resumed"], functions=c18_re._fns, mode="schedule",
                 symbolic="as c18_re; quick tier: permanent subscription in {none, all}, in-plan subscription in {none, subscribe 'event' + unsubscribe}", out_of_bound=OUT + "; see c18_re",
                 stubs=STUBS, require_exhaustive=True))
