"""C08 -- RunEngineInterrupted means paused unless the plan was terminated (RE-lab sweep)."""
from vlib import oracles, reharness
from vlib.harness import Harness, register
from harnesses.c01_documents import OUT, STUBS, SYM, _fns

PLANS_Q = ["scan2", "bare", "cleanup", "nested_runs", "staged_monitor", "wait_move_on"]
PLANS_T = PLANS_Q + ["count2", "flymon", "grid2x2", "fly1", "adaptive"]
register(Harness("c08_sweep", "C08", lambda P: reharness.make_sweep(P, oracles.c08_interrupted, plans=PLANS_Q if P["tier"] == "quick" else PLANS_T),
                 {"quick": dict(shards=16, past_end=4, budget_s=300, per_path_s=30), "thorough": dict(shards=48, past_end=6, budget_s=3000, per_path_s=30)},
                 goals=["paused", "resumed", "suspended", "interrupted", "request-after-last-message"], functions=_fns, mode="schedule", symbolic=SYM,
                 out_of_bound=OUT, stubs=STUBS, require_exhaustive=True))
from vlib import corpus  # noqa: E402

register(Harness("c08_second_call", "C08", lambda P: reharness.make_sweep(P, oracles.c08_interrupted, plans=["scan2", "bare"] if P["tier"] == "quick" else PLANS_T,
                                                                           kinds=["pause", "defer", "suspend"], decisions=["resume", "abort"],
                                                                           run_kw=dict(prelude=corpus.clearing_prelude)),
                 {"quick": dict(shards=16, budget_s=300, per_path_s=30), "thorough": dict(shards=32, budget_s=3000, per_path_s=30)},
                 goals=["paused", "resumed"], functions=_fns, mode="schedule", symbolic=SYM + "; the call under test is preceded, on the same engine, by a completed call that used clear_checkpoint",
                 out_of_bound=OUT, stubs=STUBS, require_exhaustive=True))
