"""C32 -- RunEngineSimulator.simulate_plan replays plans faithfully; check_limits raises exactly when needed."""
import types
import warnings

from vlib.harness import Harness, register
from vlib.symx import fork_bool, fork_int, goal, only_shard


class _Dev:
    def __init__(self, name):
        self.name = name
        self.parent = None


def make_sim(P):
    from bluesky.simulators import RunEngineSimulator
    from bluesky.utils import Msg

    L, NH = P["L"], P["H"]
    dx, dy = _Dev("x"), _Dev("y")
    MSGS = [("a", None), ("ab", None), ("c", dx), ("c", dy)]  # "a" is a substring of "ab": a string must not be treated as a collection
    # handler kinds: which (command, obj) pairs a handler matches
    KINDS = [
        ("ab", None, lambda c, o: c == "ab"),
        (["a", "ab"], None, lambda c, o: c in ("a", "ab")),
        ("c", "x", lambda c, o: c == "c" and o is dx),  # name filter
        ("c", lambda m: m.obj is dy, lambda c, o: c == "c" and o is dy),  # callable filter
        (("a", "c"), None, lambda c, o: c in ("a", "c")),
    ]

    def h(p1: int, p2: int, p3: int, p4: int, k1: int, k2: int, k3: int, r1: int, r2: int, r3: int, nh: int, at_end: bool, retv: int) -> str:
        prog = [p1, p2, p3, p4][:L]
        nh = fork_int(nh, 0, NH)
        kinds = [fork_int(k, 0, len(KINDS) - 1) for k in [k1, k2, k3][:nh]]
        only_shard(sum(k * 5**i for i, k in enumerate(kinds)) + nh, P)
        results = [r1, r2, r3][:nh]
        append_last = fork_bool(at_end) if nh else False
        sim = RunEngineSimulator()
        order = []  # handler indices in priority order (first match wins)
        for j in range(nh):
            cmds, filt, _pred = KINDS[kinds[j]]
            res = results[j]
            if append_last and j == nh - 1:
                sim.add_handler(cmds, (lambda m, res=res: res), filt, index="end")
                order.append(j)
                goal("handler-appended-at-end")
            else:
                sim.add_handler(cmds, (lambda m, res=res: res), filt)
                order.insert(0, j)
        yielded, got = [], []

        def plan():
            for i in range(L):
                op = fork_int(prog[i], 0, len(MSGS))
                if op == len(MSGS):
                    return ("early", i, retv)
                c, o = MSGS[op]
                m = Msg(c, o, i)
                yielded.append(m)
                r = yield m
                got.append(r)
            return ("done", retv)

        msgs = sim.simulate_plan(plan())
        tags = []
        if len(msgs) != len(yielded) or any(a is not b for a, b in zip(msgs, yielded)):
            tags.append("simulate_plan:returned-messages-differ-from-yielded")
        exp_ret = ("early", len(yielded), retv) if len(yielded) < L or False else None
        # expected responses
        for i, m in enumerate(yielded):
            exp = None
            for j in order:
                if KINDS[kinds[j]][2](m.command, m.obj):
                    exp = results[j]
                    goal("handler-matched")
                    break
            if i < len(got):
                if exp is None:
                    if got[i] is not None:
                        tags.append("simulate_plan:response-without-matching-handler")
                elif got[i] is None or got[i] != exp:
                    tags.append("simulate_plan:response-is-not-newest-matching-handlers-result")
        rv = sim.return_value
        if not (isinstance(rv, tuple) and rv[-1] == retv and rv[0] in ("early", "done")):
            tags.append("simulate_plan:return-value-not-recorded")
        if sum(1 for j in range(nh) for m in yielded if KINDS[kinds[j]][2](m.command, m.obj)) >= 2:
            goal("several-handlers-match")
        return ";".join(sorted(set(tags)))

    return h


def make_limits(P):
    import bluesky.simulators as bsim
    from bluesky.utils import Msg

    L = P["L"]

    class LimitError(ValueError):
        pass

    class Checked(_Dev):
        def __init__(self, name, lo, hi):
            super().__init__(name)
            self.lo, self.hi = lo, hi
            self.calls = []

        def check_value(self, v):
            self.calls.append(v)
            if v < self.lo or v > self.hi:
                raise LimitError("out of limits")

    class AsyncChecked(Checked):
        async def check_value(self, v):
            self.calls.append(v)
            if v < self.lo or v > self.hi:
                raise LimitError("out of limits")

    def h(lo: int, hi: int, lo2: int, hi2: int, o1: int, o2: int, o3: int, o4: int, t1: int, t2: int, t3: int, t4: int) -> str:
        a, b, c = Checked("a", lo, hi), AsyncChecked("b", lo2, hi2), _Dev("plain")
        ops, ts = [o1, o2, o3, o4][:L], [t1, t2, t3, t4][:L]
        msgs = []
        bad_expected = False
        first_bad = None
        for i in range(L):
            op = fork_int(ops[i], 0, 4)
            if op == 0:
                msgs.append(Msg("set", a, ts[i]))
                if not bad_expected and (ts[i] < lo or ts[i] > hi):
                    bad_expected, first_bad = True, i
            elif op == 1:
                msgs.append(Msg("set", b, ts[i], group="g"))
                if not bad_expected and (ts[i] < lo2 or ts[i] > hi2):
                    bad_expected, first_bad = True, i
            elif op == 2:
                msgs.append(Msg("set", c, ts[i]))
                goal("uncheckable-set")
            elif op == 3:
                msgs.append(Msg("read", a))
            else:
                msgs.append(Msg("null"))
        coro = bsim.check_limits_async(iter(msgs))
        raised = False
        with warnings.catch_warnings():
            warnings.simplefilter("ignore")
            try:
                coro.send(None)
                return "check_limits:coroutine-suspended-unexpectedly"
            except StopIteration:
                pass
            except LimitError:
                raised = True
        if bad_expected:
            goal("out-of-limits")
        if raised and not bad_expected:
            return "check_limits:raised-although-all-sets-within-limits"
        if bad_expected and not raised:
            return "check_limits:out-of-limits-set-not-reported"
        if not bad_expected:
            nsets = sum(1 for m in msgs if m.command == "set" and m.obj in (a, b))
            if len(a.calls) + len(b.calls) != nsets:
                return "check_limits:not-every-set-on-a-checkable-device-was-checked"
        return ""

    return h


def _fns():
    import bluesky.simulators as bsim

    return [bsim.RunEngineSimulator.simulate_plan, bsim.RunEngineSimulator.add_handler, bsim.check_limits_async]


register(Harness("c32_simulate", "C32", make_sim,
                 {"quick": dict(L=3, H=2, shards=8, budget_s=200, per_path_s=20), "thorough": dict(L=3, H=3, shards=16, budget_s=3000, per_path_s=30)},
                 goals=["handler-matched", "several-handlers-match", "handler-appended-at-end"], functions=_fns,
                 symbolic="plan of L steps, each yielding one of 4 (command, object) messages or returning early; up to H handlers, each of 5 kinds "
                 "(command string, command list, name filter, callable filter), results arbitrary ints, last one optionally added with index='end'; return value arbitrary int",
                 out_of_bound="plans that raise; callbacks (fire_callback); longer plans / more handlers", require_exhaustive=True, opaque_text=True,
                 stubs=["text rendering of symbolic numbers is opaque (LOGGER.debug f-string only)"]))
register(Harness("c32_limits", "C32", make_limits,
                 {"quick": dict(L=3, shards=1, budget_s=200, per_path_s=20), "thorough": dict(L=4, shards=1, budget_s=3000, per_path_s=30)},
                 goals=["out-of-limits", "uncheckable-set"], functions=_fns, opaque_text=True,
                 symbolic="two limit-checked devices (one with a synchronous, one with an async check_value) with arbitrary integer limits, one device without check_value; L messages each in "
                 "{set a, set b (with group), set plain, read, null} with arbitrary integer targets",
                 out_of_bound="real ophyd limits", stubs=["fake Checkable devices raising on lo<=v<=hi violation",
                 "text rendering of symbolic numbers is opaque (warning message only)"], require_exhaustive=True))
