"""C38 -- truncate_json_overflow makes numeric payloads JSON-safe without changing safe values."""
import math
from typing import Dict, List

from vlib.harness import Harness, register
from vlib.symx import assume, goal

LIM = 2**53 - 1


def _check_scalar(x, r, who):
    """x: input scalar, r: output.  Returns list of tags."""
    tags = []
    if isinstance(x, bool):
        if r is not x and r != x:
            tags.append(f"{who}:bool-changed")
        return tags
    if isinstance(x, int):
        if -LIM <= x <= LIM:
            goal("int-in-range")
            if r != x or not isinstance(r, int):
                tags.append(f"{who}:in-range-int-changed")
        else:
            goal("int-clamped")
            if not isinstance(r, int) or not (-LIM <= r <= LIM):
                tags.append(f"{who}:int-out-of-range-after")
            elif (x > 0) != (r > 0):
                tags.append(f"{who}:int-sign-flipped")
        return tags
    if isinstance(x, float):
        if x != x:
            goal("nan")
            if r == r:
                tags.append(f"{who}:nan-changed")
            return tags
        if x == math.inf or x == -math.inf:
            goal("inf")
            if not isinstance(r, (int, float)) or r != r or r == math.inf or r == -math.inf:
                tags.append(f"{who}:inf-not-made-finite")
            elif (x > 0) != (r > 0):
                tags.append(f"{who}:inf-sign-flipped")
            return tags
        integral = x % 1 == 0
        if integral and not (-LIM <= x <= LIM):
            goal("float-integral-clamped")
            if r != r or not (-LIM <= r <= LIM):
                tags.append(f"{who}:integral-float-out-of-range-after")
            elif (x > 0) != (r > 0):
                tags.append(f"{who}:float-sign-flipped")
        else:
            goal("float-unchanged")
            if not isinstance(r, float) or r != x:
                tags.append(f"{who}:safe-float-changed")
        return tags
    if r != x:
        tags.append(f"{who}:non-number-changed")
    return tags


def _check(x, r, who, depth=0):
    if isinstance(x, dict):
        if not isinstance(r, dict) or list(r.keys()) != list(x.keys()):
            return [f"{who}:mapping-shape-changed"]
        out = []
        for k in x:
            out += _check(x[k], r[k], who, depth + 1)
        return out
    if isinstance(x, (list, tuple)):
        if not isinstance(r, list) or len(r) != len(x):
            return [f"{who}:sequence-shape-changed"]
        out = []
        for a, b in zip(x, r):
            out += _check(a, b, who, depth + 1)
        return out
    return _check_scalar(x, r, who)


def _t():
    from bluesky.utils import truncate_json_overflow

    return truncate_json_overflow


def make_int(P):
    f = _t()

    def h(x: int) -> str:
        return ";".join(sorted(set(_check_scalar(x, f(x), "int"))))

    return h


def make_float(P):
    f = _t()

    def h(x: float) -> str:
        return ";".join(sorted(set(_check_scalar(x, f(x), "float"))))

    return h


def make_bool(P):
    f = _t()

    def h(x: bool, s: str) -> str:
        assume(len(s) <= 2)
        r = f({"b": x, "s": s, "n": None})
        tags = []
        if r["b"] is not True and r["b"] is not False or r["b"] != x:
            tags.append("bool-changed")
        if r["s"] != s:
            tags.append("str-changed")
        if r["n"] is not None:
            tags.append("none-changed")
        goal("bool")
        return ";".join(tags)

    return h


def make_nested(P):
    f = _t()
    n = P["maxlen"]

    def h(a: List[int], v0: int, v1: int, nd: int, t: int) -> str:
        assume(len(a) <= n and 0 <= nd <= min(2, n - 1))
        assume(len(a) % P["nshards"] == P["shard"] % (n + 1) or P["nshards"] == 1)
        d = {"k0": v0, "k1": v1} if nd == 2 else ({"k0": v0} if nd == 1 else {})
        x = {"ints": a, "nest": [list(a), {"d": d, "tup": (t, [t])}], "scalar": t}
        r = f(x)
        if len(a) + len(d) >= 2:
            goal("nested-nonempty")
        return ";".join(sorted(set(_check(x, r, "nested"))))

    return h


def _fns():
    return [_t()]


_OUT = "numpy scalars and arrays are handled by c38_numpy over a boundary-value alphabet (C objects the solver cannot produce); nesting deeper than 3; strings are passed through"
register(Harness("c38_int", "C38", make_int, {"quick": dict(budget_s=60), "thorough": dict(budget_s=120)},
                 goals=["int-in-range", "int-clamped"], functions=_fns, symbolic="x: any Python int (unbounded)", out_of_bound=_OUT,
                 require_exhaustive=True))
register(Harness("c38_float", "C38", make_float, {"quick": dict(budget_s=90, per_path_s=30), "thorough": dict(budget_s=600, per_path_s=120)},
                 goals=["nan", "inf", "float-integral-clamped", "float-unchanged"], functions=_fns,
                 symbolic="x: any IEEE-754 double incl. NaN and +-inf (z3 FP theory)", out_of_bound=_OUT, float_model="ieee", require_exhaustive=True))
register(Harness("c38_bool", "C38", make_bool, {"quick": dict(budget_s=60)}, goals=["bool"], functions=_fns,
                 symbolic="bool, str of length <= 2, None inside a mapping", out_of_bound=_OUT, require_exhaustive=True))
register(Harness("c38_nested", "C38", make_nested, {"quick": dict(budget_s=90, maxlen=2, per_path_s=30), "thorough": dict(budget_s=1200, maxlen=3, shards=4, per_path_s=60)},
                 goals=["nested-nonempty", "int-clamped", "int-in-range"], functions=_fns,
                 symbolic="mapping -> {list of ints, list -> [list, mapping -> {mapping with <= min(2, maxlen-1) concrete keys and symbolic int values, tuple}]}; list length <= maxlen; "
                 "ints unbounded (the float kernel is decided by c38_float; the recursion does not depend on leaf type)", out_of_bound=_OUT))


# ---- numpy scalars and arrays (schedule mode: numpy objects are C data the solver cannot produce, so dtype, length,
# container and every element are solver-chosen from an alphabet of boundary values and run natively)
NP_VALUES = [0, 1, -1, LIM, -LIM, LIM + 1, -LIM - 1, 2**62, -(2**62), 2**70, 1.5, 1e300, float(2**60), math.inf, -math.inf, math.nan]


def make_numpy(P):
    from vlib.symx import fork_int, notrace, only_shard

    def h(kind: int, cont: int, n: int, v1: int, v2: int) -> str:
        kd = fork_int(kind, 0, 4)  # 0 numpy scalar, 1 int64 array, 2 float64 array, 3 object array, 4 uint64 array
        ct = fork_int(cont, 0, 2)  # bare / inside a list / inside a mapping
        nn = fork_int(n, 1, 2) if kd else 1
        only_shard(kd + 5 * ct + 15 * nn, P)
        vals = [NP_VALUES[fork_int(v, 0, len(NP_VALUES) - 1)] for v in (v1, v2)[:nn]]
        with notrace():
            import numpy as np

            from bluesky.utils import truncate_json_overflow

            try:
                if kd == 0:
                    x = vals[0]
                    obj = np.float64(x) if isinstance(x, float) else (np.int64(x) if -(2**63) <= x < 2**63 else None)
                elif kd == 1:
                    obj = np.array(vals, dtype=np.int64) if all(isinstance(v, int) and -(2**63) <= v < 2**63 for v in vals) else None
                elif kd == 2:
                    obj = np.array([float(v) for v in vals], dtype=np.float64)
                elif kd == 3:
                    obj = np.array(vals, dtype=object)
                else:
                    obj = np.array(vals, dtype=np.uint64) if all(isinstance(v, int) and 0 <= v < 2**64 for v in vals) else None
            except (OverflowError, ValueError):
                obj = None
            if obj is None:
                return ""  # this value does not exist in that dtype
            goal("numpy-input")
            leaves_in = [obj.item()] if kd == 0 else [x.item() if hasattr(x, "item") else x for x in obj.tolist()] if kd != 3 else list(vals)
            if kd in (1, 2, 4):
                leaves_in = obj.tolist()
            data = obj if ct == 0 else ([obj] if ct == 1 else {"k": obj})
            out = truncate_json_overflow(data)
            res = out if ct == 0 else (out[0] if ct == 1 and isinstance(out, list) and len(out) == 1 else (out.get("k") if ct == 2 and isinstance(out, dict) else None))
            if ct and res is None:
                return "numpy:container-shape-changed"
            if kd == 0:
                leaves_out = [res]
            else:
                if not isinstance(res, list) or len(res) != len(leaves_in):
                    return "numpy:array-did-not-become-a-sequence-of-the-same-length"
                leaves_out = res
            tags = []
            for a, b in zip(leaves_in, leaves_out):
                b = b.item() if hasattr(b, "item") else b  # a numpy scalar is judged by its value
                tags += _check_scalar(a, b, "numpy")
            return ";".join(sorted(set(tags)))

    return h


register(Harness("c38_numpy", "C38", make_numpy, {"quick": dict(shards=8, budget_s=200, per_path_s=30), "thorough": dict(shards=8, budget_s=600, per_path_s=30)},
                 goals=["numpy-input", "int-clamped", "int-in-range", "inf", "nan"], functions=_fns, mode="schedule",
                 symbolic="numpy scalar / int64 / uint64 / float64 / object array of length 1-2, bare or inside a list or a mapping; every element solver-chosen from 16 boundary values "
                 "(0, +-1, +-(2**53-1), +-2**53, +-2**62, 2**70, 1.5, 1e300, 2.0**60, +-inf, nan)",
                 out_of_bound="numpy values outside the 16-value alphabet (numpy objects are C data: not symbolic; the scalar kernel is decided symbolically by c38_int / c38_float); arrays of rank > 1 or length > 2",
                 require_exhaustive=True))
