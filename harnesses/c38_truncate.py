"""C38 -- truncate_json_overflow makes numeric payloads JSON-safe without changing safe values."""
import math
from typing import Dict, List

from vlib.harness import Harness, register
from vlib.symx import assume, goal

LIM = 2**53 - 1


def _check_scalar(x, r, who):
    """x: input scalar, r: output.  Returns list of tags."""
    tags = []
    if isinstance(x, bool):
        if r is not x and r != x:
            tags.append(f"{who}:bool-changed")
        return tags
    if isinstance(x, int):
        if -LIM <= x <= LIM:
            goal("int-in-range")
            if r != x or not isinstance(r, int):
                tags.append(f"{who}:in-range-int-changed")
        else:
            goal("int-clamped")
            if not isinstance(r, int) or not (-LIM <= r <= LIM):
                tags.append(f"{who}:int-out-of-range-after")
            elif (x > 0) != (r > 0):
                tags.append(f"{who}:int-sign-flipped")
        return tags
    if isinstance(x, float):
        if x != x:
            goal("nan")
            if r == r:
                tags.append(f"{who}:nan-changed")
            return tags
        if x == math.inf or x == -math.inf:
            goal("inf")
            if not isinstance(r, (int, float)) or r != r or r == math.inf or r == -math.inf:
                tags.append(f"{who}:inf-not-made-finite")
            elif (x > 0) != (r > 0):
                tags.append(f"{who}:inf-sign-flipped")
            return tags
        integral = x % 1 == 0
        if integral and not (-LIM <= x <= LIM):
            goal("float-integral-clamped")
            if r != r or not (-LIM <= r <= LIM):
                tags.append(f"{who}:integral-float-out-of-range-after")
            elif (x > 0) != (r > 0):
                tags.append(f"{who}:float-sign-flipped")
        else:
            goal("float-unchanged")
            if not isinstance(r, float) or r != x:
                tags.append(f"{who}:safe-float-changed")
        return tags
    if r != x:
        tags.append(f"{who}:non-number-changed")
    return tags


def _check(x, r, who, depth=0):
    if isinstance(x, dict):
        if not isinstance(r, dict) or list(r.keys()) != list(x.keys()):
            return [f"{who}:mapping-shape-changed"]
        out = []
        for k in x:
            out += _check(x[k], r[k], who, depth + 1)
        return out
    if isinstance(x, (list, tuple)):
        if not isinstance(r, list) or len(r) != len(x):
            return [f"{who}:sequence-shape-changed"]
        out = []
        for a, b in zip(x, r):
            out += _check(a, b, who, depth + 1)
        return out
    return _check_scalar(x, r, who)


def _t():
    from bluesky.utils import truncate_json_overflow

    return truncate_json_overflow


def make_int(P):
    f = _t()

    def h(x: int) -> str:
        return ";".join(sorted(set(_check_scalar(x, f(x), "int"))))

    return h


def make_float(P):
    f = _t()

    def h(x: float) -> str:
        return ";".join(sorted(set(_check_scalar(x, f(x), "float"))))

    return h


def make_bool(P):
    f = _t()

    def h(x: bool, s: str) -> str:
        assume(len(s) <= 2)
        r = f({"b": x, "s": s, "n": None})
        tags = []
        if r["b"] is not True and r["b"] is not False or r["b"] != x:
            tags.append("bool-changed")
        if r["s"] != s:
            tags.append("str-changed")
        if r["n"] is not None:
            tags.append("none-changed")
        goal("bool")
        return ";".join(tags)

    return h


def make_nested(P):
    f = _t()
    n = P["maxlen"]

    def h(a: List[int], v0: int, v1: int, nd: int, t: int) -> str:
        assume(len(a) <= n and 0 <= nd <= min(2, n - 1))
        assume(len(a) % P["nshards"] == P["shard"] % (n + 1) or P["nshards"] == 1)
        d = {"k0": v0, "k1": v1} if nd == 2 else ({"k0": v0} if nd == 1 else {})
        x = {"ints": a, "nest": [list(a), {"d": d, "tup": (t, [t])}], "scalar": t}
        r = f(x)
        if len(a) + len(d) >= 2:
            goal("nested-nonempty")
        return ";".join(sorted(set(_check(x, r, "nested"))))

    return h


def _fns():
    return [_t()]


_OUT = "numpy scalars and arrays (C objects the solver cannot produce); nesting deeper than 3; strings are passed through"
register(Harness("c38_int", "C38", make_int, {"quick": dict(budget_s=60), "thorough": dict(budget_s=120)},
                 goals=["int-in-range", "int-clamped"], functions=_fns, symbolic="x: any Python int (unbounded)", out_of_bound=_OUT,
                 require_exhaustive=True))
register(Harness("c38_float", "C38", make_float, {"quick": dict(budget_s=90, per_path_s=30), "thorough": dict(budget_s=600, per_path_s=120)},
                 goals=["nan", "inf", "float-integral-clamped", "float-unchanged"], functions=_fns,
                 symbolic="x: any IEEE-754 double incl. NaN and +-inf (z3 FP theory)", out_of_bound=_OUT, float_model="ieee", require_exhaustive=True))
register(Harness("c38_bool", "C38", make_bool, {"quick": dict(budget_s=60)}, goals=["bool"], functions=_fns,
                 symbolic="bool, str of length <= 2, None inside a mapping", out_of_bound=_OUT, require_exhaustive=True))
register(Harness("c38_nested", "C38", make_nested, {"quick": dict(budget_s=90, maxlen=2, per_path_s=30), "thorough": dict(budget_s=1200, maxlen=3, shards=4, per_path_s=60)},
                 goals=["nested-nonempty", "int-clamped", "int-in-range"], functions=_fns,
                 symbolic="mapping -> {list of ints, list -> [list, mapping -> {mapping with <= min(2, maxlen-1) concrete keys and symbolic int values, tuple}]}; list length <= maxlen; "
                 "ints unbounded (the float kernel is decided by c38_float; the recursion does not depend on leaf type)", out_of_bound=_OUT))
