#!/bin/sh
# Build the overlay venv /verif/.venv: python of /venv + /venv's site-packages + crosshair-tool/z3 from the offline wheelhouse.
set -e
cd "$(dirname "$0")"
V=/verif/.venv
if [ -x "$V/bin/python" ] && "$V/bin/python" -c "import crosshair, z3, event_model" 2>/dev/null; then
  exit 0
fi
rm -rf "$V"
/venv/bin/python -m venv "$V"
SP=$("$V/bin/python" -c "import sysconfig; print(sysconfig.get_paths()['purelib'])")
echo "import site; site.addsitedir('/venv/lib/python3.12/site-packages')" > "$SP/_overlay.pth"
PIP_NO_INDEX=1 "$V/bin/pip" install -q --no-index --find-links /opt/veriftools/wheels crosshair-tool z3-solver >/dev/null
"$V/bin/python" -c "import crosshair, z3, event_model; print('overlay ok', z3.get_version_string())"
